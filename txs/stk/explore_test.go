package stk

import (
	"bytes"
	"os"
	"strings"
	"testing"

	"verif/harness"
)

// The application logs to fd 1 and (through loggers created at start-up) to whatever os.Stdout is at
// that moment, while the testing package captures os.Stdout once inside m.Run(). So: silence fd 1,
// let the testing package capture the saved real stdout, and point os.Stdout back at the silenced
// fd 1 while a test body runs (quiet()).
var appStdout, testStdout *os.File

func TestMain(m *testing.M) {
	harness.SilenceStdout()
	appStdout = os.Stdout
	testStdout = harness.Out()
	os.Stdout = testStdout
	code := m.Run()
	harness.RemoveScratch()
	os.Exit(code)
}

func quiet() func() {
	harness.SilenceStdout()
	os.Stdout = appStdout
	return func() { os.Stdout = testStdout }
}

func printable(b []byte) string {
	var sb strings.Builder
	for _, c := range b {
		if c >= 32 && c < 127 {
			sb.WriteByte(c)
		} else {
			sb.WriteString("\\x")
			sb.WriteString("0123456789abcdef"[c>>4 : c>>4+1])
			sb.WriteString("0123456789abcdef"[c&15 : c&15+1])
		}
	}
	return sb.String()
}

func dumpDiff(t *testing.T, before, after []harness.KV) {
	m := map[string][]byte{}
	for _, kv := range before {
		m[string(kv.K)] = kv.V
	}
	seen := map[string]bool{}
	for _, kv := range after {
		seen[string(kv.K)] = true
		old, ok := m[string(kv.K)]
		if !ok {
			t.Logf("   + %s = %s", printable(kv.K), printable(kv.V))
		} else if !bytes.Equal(old, kv.V) {
			t.Logf("   ~ %s = %s  (was %s)", printable(kv.K), printable(kv.V), printable(old))
		}
	}
	for _, kv := range before {
		if !seen[string(kv.K)] {
			t.Logf("   - %s", printable(kv.K))
		}
	}
}

func TestExplore(t *testing.T) {
	if os.Getenv("STK_EXPLORE") == "" {
		t.Skip()
	}
	defer quiet()()
	w := harness.NewWorld("explore", 4, 3)
	x, err := harness.StartRun(w)
	if err != nil {
		t.Fatal(err)
	}
	defer x.Close()
	prev := x.R.Dump()
	for h := 1; h <= 14; h++ {
		b := harness.BlockSpec{}
		if h == 2 {
			b.Txs = append(b.Txs, Delegate(w.Users[0], OLT(1000000), "d1"))
		}
		if h == 3 {
			b.Txs = append(b.Txs, Stake(w.Vals[3], w.Vals[3].Stake, WholeOLT(600000), "s1"))
		}
		res, err := x.Block(b)
		if err != nil {
			t.Fatalf("block %d: %v", h, err)
		}
		t.Logf("h=%d txs=%v updates=%v", h, res.Txs, res.ValUpdates)
		for i, r := range res.Txs {
			if r.Code != 0 {
				t.Logf("   tx %d log %s; check %v %s", i, r.Log, x.Checks[len(x.Checks)-1][i], x.Checks[len(x.Checks)-1][i].Log)
			}
		}
		cur := x.R.Dump()
		dumpDiff(t, prev, cur)
		prev = cur
	}
}
