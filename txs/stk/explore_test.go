package stk

import (
	"os"
	"strconv"
	"strings"
	"testing"

	"verif/harness"
)

// TestExplore: STK_EXPLORE=<scenario id substring> [STK_AFTER=n] prints the block-by-block state diff.
func TestExplore(t *testing.T) {
	sel := os.Getenv("STK_EXPLORE")
	if sel == "" {
		t.Skip()
	}
	defer quiet()()
	for _, sc := range Scenarios() {
		if !strings.Contains(ScenarioID(sc), sel) {
			continue
		}
		after := sc.After
		if s := os.Getenv("STK_AFTER"); s != "" {
			after, _ = strconv.Atoi(s)
		}
		w := sc.World()
		x, err := harness.StartRun(w)
		if err != nil {
			t.Fatal(err)
		}
		defer x.Close()
		var blocks []harness.BlockSpec
		if sc.Prefix != nil {
			blocks = append(blocks, sc.Prefix(w)...)
		}
		blocks = append(blocks, harness.BlockSpec{Txs: []*harness.TxSpec{sc.Target(w)}})
		blocks = append(blocks, make([]harness.BlockSpec, after)...)
		prev := x.R.Dump()
		for i, b := range blocks {
			res, err := x.Block(b)
			if err != nil {
				t.Fatalf("block %d: %v", i+1, err)
			}
			var ups []string
			for _, u := range res.ValUpdates {
				v := w.Vals[0]
				for _, c := range w.Vals {
					if string(c.Val.TM.PubKey().Bytes()[5:]) == string(u.PubKey.Data) {
						v = c
					}
				}
				ups = append(ups, v.Name+"="+strconv.FormatInt(u.Power, 10))
			}
			t.Logf("h=%d txs=%v updates=%v dead=%v", i+1, res.Txs, ups, x.R.Dead)
			for j, r := range res.Txs {
				if r.Code != 0 {
					t.Logf("   tx %d log %s", j, r.Log)
				}
			}
			cur := x.R.Dump()
			var fp, fc []harness.KV
			keep := func(k []byte) bool {
				s := string(k)
				for _, p := range []string{"es__svb", "rwz_", "rwcum_", "f_", "delegRwz_total"} {
					if strings.HasPrefix(s, p) {
						return os.Getenv("STK_ALLKEYS") != ""
					}
				}
				return true
			}
			for _, kv := range prev {
				if keep(kv.K) {
					fp = append(fp, kv)
				}
			}
			for _, kv := range cur {
				if keep(kv.K) {
					fc = append(fc, kv)
				}
			}
			dumpDiff(t, fp, fc)
			prev = cur
		}
	}
}
