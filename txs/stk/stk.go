// Package stk is the transaction factory for the transfer, staking, network-delegation, validator
// reward and evidence (allegation) transaction kinds:
//
//	SEND, SENDPOOL,
//	STAKE, UNSTAKE, WITHDRAW,
//	ADD_NETWORK_DELEGATE, NETWORK_UNDELEGATE, REWARDS_WITHDRAW_NETWORK_DELEGATE, REWARDS_REINVEST_NETWORK_DELEGATE,
//	WITHDRAW_REWARD,
//	ALLEGATION, ALLEGATION_VOTE, RELEASE.
//
// Every constructor takes RAW field values, performs no validation whatsoever and returns a
// *harness.TxSpec whose payload is produced by the repository's own message struct and its Marshal().
//
// Convention: an address field that is also a required signer is passed as *harness.Account (the
// payload carries acct.Addr; when no explicit signers are given the accounts the handler's Signers()
// names sign, in that order). To put an address into such a field WITHOUT owning its key use
// AddrOnly(addr) and pass the real signer(s) explicitly. Address fields that never sign are plain
// keys.Address. Amounts are action.Amount (currency string + value), so any currency and any value
// (negative, huge) is expressible: see Coin / OLT / WholeOLT.
package stk

import (
	"math/big"

	"github.com/Oneledger/protocol/action"
	evact "github.com/Oneledger/protocol/action/evidence"
	ndact "github.com/Oneledger/protocol/action/network_delegation"
	rwact "github.com/Oneledger/protocol/action/rewards"
	stact "github.com/Oneledger/protocol/action/staking"
	"github.com/Oneledger/protocol/action/transfer"
	"github.com/Oneledger/protocol/data/balance"
	"github.com/Oneledger/protocol/data/keys"

	"verif/harness"
)

// AddrOnly wraps a bare address into an Account that cannot sign (hostile third-party address in a
// signer field). Pass the real signers explicitly when using it.
func AddrOnly(a keys.Address) *harness.Account {
	return &harness.Account{Name: "addr-only", Addr: a}
}

// Coin builds an action.Amount from a currency name and a raw value.
func Coin(cur string, v balance.Amount) action.Amount { return action.Amount{Currency: cur, Value: v} }

// OLT is n whole OLT expressed in base units (for fields the handlers read with ToCoin: SEND,
// SENDPOOL and the four network-delegation kinds).
func OLT(n int64) action.Amount { return Coin("OLT", harness.OLTUnits(n)) }

// WholeOLT is the plain number n (for fields the handlers read with ToCoinWithBase, i.e. multiply by
// 10^18 themselves: STAKE, UNSTAKE, WITHDRAW, WITHDRAW_REWARD).
func WholeOLT(n int64) action.Amount { return Coin("OLT", *balance.NewAmountFromInt(n)) }

// Int builds a balance.Amount from any integer, including negative ones.
func Int(n int64) balance.Amount { return *balance.NewAmountFromBigInt(big.NewInt(n)) }

func signersOr(given []*harness.Account, def ...*harness.Account) []*harness.Account {
	if len(given) > 0 {
		return given
	}
	return def
}

func addrOf(a *harness.Account) keys.Address {
	if a == nil {
		return nil
	}
	return a.Addr
}

// ---------------------------------------------------------------------------------------------
// transfer
// ---------------------------------------------------------------------------------------------

// Send builds SEND. Required signer: From.
func Send(from *harness.Account, to keys.Address, amount action.Amount, memo string, signers ...*harness.Account) *harness.TxSpec {
	msg := &transfer.Send{From: addrOf(from), To: to, Amount: amount}
	return harness.NewTx(action.SEND, msg, memo, signersOr(signers, from)...)
}

// SendPool builds SENDPOOL. Required signer: From. Known pool names: "BountyPool", "FeePool",
// "RewardsPool", "DelegationPool".
func SendPool(from *harness.Account, poolName string, amount action.Amount, memo string, signers ...*harness.Account) *harness.TxSpec {
	msg := &transfer.SendPool{From: addrOf(from), PoolName: poolName, Amount: amount}
	return harness.NewTx(action.SENDPOOL, msg, memo, signersOr(signers, from)...)
}

// ---------------------------------------------------------------------------------------------
// staking
// ---------------------------------------------------------------------------------------------

// StakeRaw builds STAKE from every raw field. Required signers: StakeAddress, ValidatorAddress.
// amount.Value is in WHOLE OLT.
func StakeRaw(validator, stakeAcct *harness.Account, valPub, ecdsaPub keys.PublicKey, nodeName string,
	amount action.Amount, memo string, signers ...*harness.Account) *harness.TxSpec {
	msg := &stact.Stake{
		ValidatorAddress:     addrOf(validator),
		StakeAddress:         addrOf(stakeAcct),
		ValidatorPubKey:      valPub,
		ValidatorECDSAPubKey: ecdsaPub,
		NodeName:             nodeName,
		Stake:                amount,
	}
	return harness.NewTx(action.STAKE, msg, memo, signersOr(signers, stakeAcct, validator)...)
}

// Stake builds STAKE for candidate validator v staking from stakeAcct (usually v.Stake).
func Stake(v *harness.ValSpec, stakeAcct *harness.Account, amount action.Amount, memo string, signers ...*harness.Account) *harness.TxSpec {
	return StakeRaw(v.Val, stakeAcct, v.Val.Pub, v.Ecdsa.Pub, v.Name, amount, memo, signers...)
}

// Unstake builds UNSTAKE. Required signers: StakeAddress, ValidatorAddress. amount.Value in WHOLE OLT.
func Unstake(validator, stakeAcct *harness.Account, amount action.Amount, memo string, signers ...*harness.Account) *harness.TxSpec {
	msg := &stact.Unstake{ValidatorAddress: addrOf(validator), StakeAddress: addrOf(stakeAcct), Stake: amount}
	return harness.NewTx(action.UNSTAKE, msg, memo, signersOr(signers, stakeAcct, validator)...)
}

// Withdraw builds WITHDRAW (matured unstaked amount back to the balance). Required signers:
// StakeAddress, ValidatorAddress. amount.Value in WHOLE OLT.
func Withdraw(validator, stakeAcct *harness.Account, amount action.Amount, memo string, signers ...*harness.Account) *harness.TxSpec {
	msg := &stact.Withdraw{ValidatorAddress: addrOf(validator), StakeAddress: addrOf(stakeAcct), Stake: amount}
	return harness.NewTx(action.WITHDRAW, msg, memo, signersOr(signers, stakeAcct, validator)...)
}

// ---------------------------------------------------------------------------------------------
// network delegation
// ---------------------------------------------------------------------------------------------

// Delegate builds ADD_NETWORK_DELEGATE. Required signer: DelegationAddress. Amount in base units.
func Delegate(delegator *harness.Account, amount action.Amount, memo string, signers ...*harness.Account) *harness.TxSpec {
	msg := &ndact.AddNetworkDelegation{DelegationAddress: addrOf(delegator), Amount: amount}
	return harness.NewTx(action.ADD_NETWORK_DELEGATE, msg, memo, signersOr(signers, delegator)...)
}

// Undelegate builds NETWORK_UNDELEGATE. Required signer: Delegator. Amount in base units.
func Undelegate(delegator *harness.Account, amount action.Amount, memo string, signers ...*harness.Account) *harness.TxSpec {
	msg := &ndact.Undelegate{Delegator: addrOf(delegator), Amount: amount}
	return harness.NewTx(action.NETWORK_UNDELEGATE, msg, memo, signersOr(signers, delegator)...)
}

// DelegWithdrawRewards builds REWARDS_WITHDRAW_NETWORK_DELEGATE. Required signer: Delegator.
func DelegWithdrawRewards(delegator *harness.Account, amount action.Amount, memo string, signers ...*harness.Account) *harness.TxSpec {
	msg := &ndact.Withdraw{Delegator: addrOf(delegator), Amount: amount}
	return harness.NewTx(action.REWARDS_WITHDRAW_NETWORK_DELEGATE, msg, memo, signersOr(signers, delegator)...)
}

// DelegReinvestRewards builds REWARDS_REINVEST_NETWORK_DELEGATE. Required signer: Delegator.
func DelegReinvestRewards(delegator *harness.Account, amount action.Amount, memo string, signers ...*harness.Account) *harness.TxSpec {
	msg := &ndact.Reinvest{Delegator: addrOf(delegator), Amount: amount}
	return harness.NewTx(action.REWARDS_REINVEST_NETWORK_DELEGATE, msg, memo, signersOr(signers, delegator)...)
}

// ---------------------------------------------------------------------------------------------
// validator block rewards
// ---------------------------------------------------------------------------------------------

// WithdrawReward builds WITHDRAW_REWARD. Required signer: SignerAddress (the validator's stake
// account if the validator record exists). amount.Value in WHOLE OLT.
func WithdrawReward(validator keys.Address, signer *harness.Account, amount action.Amount, memo string, signers ...*harness.Account) *harness.TxSpec {
	msg := &rwact.Withdraw{ValidatorAddress: validator, SignerAddress: addrOf(signer), WithdrawAmount: amount}
	return harness.NewTx(action.WITHDRAW_REWARD, msg, memo, signersOr(signers, signer)...)
}

// ---------------------------------------------------------------------------------------------
// evidence
// ---------------------------------------------------------------------------------------------

// Evidence choices (data/evidence: YES = 1, NO = 2).
const (
	Yes int8 = 1
	No  int8 = 2
)

// Allegation builds ALLEGATION. Required signer: ValidatorAddress (the reporter's validator key);
// the fee is charged to the reporter's stake account.
func Allegation(requestID string, reporter *harness.Account, malicious keys.Address, blockHeight int64, proof string,
	memo string, signers ...*harness.Account) *harness.TxSpec {
	msg := &evact.Allegation{
		RequestID:        requestID,
		ValidatorAddress: addrOf(reporter),
		MaliciousAddress: malicious,
		BlockHeight:      blockHeight,
		ProofMsg:         proof,
	}
	return harness.NewTx(action.ALLEGATION, msg, memo, signersOr(signers, reporter)...)
}

// AllegationVote builds ALLEGATION_VOTE. Required signer: Address (the voter's validator key).
func AllegationVote(requestID string, voter *harness.Account, choice int8, memo string, signers ...*harness.Account) *harness.TxSpec {
	msg := &evact.AllegationVote{RequestID: requestID, Address: addrOf(voter), Choice: choice}
	return harness.NewTx(action.ALLEGATION_VOTE, msg, memo, signersOr(signers, voter)...)
}

// Release builds RELEASE. Required signer: ValidatorAddress (the frozen validator's key).
func Release(validator *harness.Account, memo string, signers ...*harness.Account) *harness.TxSpec {
	msg := &evact.Release{ValidatorAddress: addrOf(validator)}
	return harness.NewTx(action.RELEASE, msg, memo, signersOr(signers, validator)...)
}

// AllKinds lists the transaction kinds this package covers.
func AllKinds() []action.Type {
	return []action.Type{
		action.SEND, action.SENDPOOL,
		action.STAKE, action.UNSTAKE, action.WITHDRAW,
		action.ADD_NETWORK_DELEGATE, action.NETWORK_UNDELEGATE,
		action.REWARDS_WITHDRAW_NETWORK_DELEGATE, action.REWARDS_REINVEST_NETWORK_DELEGATE,
		action.WITHDRAW_REWARD,
		action.ALLEGATION, action.ALLEGATION_VOTE, action.RELEASE,
	}
}
