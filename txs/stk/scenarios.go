package stk

import (
	"bytes"
	"fmt"
	"time"

	"github.com/Oneledger/protocol/action"
	"github.com/Oneledger/protocol/data/keys"

	"verif/harness"
)

// Expect describes what a scenario is supposed to do to the committed state; the test file checks
// it, other consumers may use it to assert that a history is not vacuous.
type Expect struct {
	// Touched: key prefixes; for EACH of them at least one key must differ, right after the target's
	// block, from what the same history with an empty block in place of the target gives.
	Touched []string
	// Final (optional) checks the delayed effects on the run returned by harness.RunScenario (i.e.
	// after the After blocks).
	Final func(x *harness.Run) error
}

// ScenarioID is the unique name of a scenario of this package.
func ScenarioID(sc *harness.Scenario) string { return sc.Kind + "/" + sc.Note }

// ---------------------------------------------------------------------------------------------
// small helpers
// ---------------------------------------------------------------------------------------------

func blk(txs ...*harness.TxSpec) harness.BlockSpec { return harness.BlockSpec{Txs: txs} }

func empties(n int) []harness.BlockSpec { return make([]harness.BlockSpec, n) }

func seq(parts ...[]harness.BlockSpec) []harness.BlockSpec {
	var out []harness.BlockSpec
	for _, p := range parts {
		out = append(out, p...)
	}
	return out
}

func one(b harness.BlockSpec) []harness.BlockSpec { return []harness.BlockSpec{b} }

// defaultWorld: users A,B,C; validators V1 (3M), V2 (2M), V3 (1M) staked at genesis, V4 a candidate.
func defaultWorld(name string) func() *harness.World {
	return func() *harness.World { return harness.NewWorld("stk-"+name, 4, 3) }
}

// richRewardsWorld: block rewards 100 times the default so that matured validator rewards exceed one
// whole OLT (the unit of WITHDRAW_REWARD) after one reward interval already.
func richRewardsWorld(name string) func() *harness.World {
	return func() *harness.World {
		w := harness.NewWorld("stk-"+name, 4, 3)
		w.Gov.RewardOptions.YearBlockRewardShares[0] = harness.OLTUnits(70000000)
		w.Gov.RewardOptions.YearBlockRewardShares[1] = harness.OLTUnits(40000000)
		return w
	}
}

// missedVotesWorld: a validator needs 2 signatures in every window of 3 blocks. (With the default
// MinVotesRequired = 1 nobody is ever frozen: an address whose count drops to 0 is deleted from the
// cumulative-vote map and only addresses in the map are examined.)
func missedVotesWorld(name string) func() *harness.World {
	return func() *harness.World {
		w := harness.NewWorld("stk-"+name, 4, 3)
		w.Gov.EvidenceOptions.MinVotesRequired = 2
		return w
	}
}

// state access ------------------------------------------------------------------------------------

// Lookup returns the committed value of key.
func Lookup(x *harness.Run, key string) ([]byte, bool) {
	for _, kv := range x.R.Dump() {
		if string(kv.K) == key {
			return kv.V, true
		}
	}
	return nil, false
}

func hasPrefixKey(x *harness.Run, prefix string) bool {
	for _, kv := range x.R.Dump() {
		if bytes.HasPrefix(kv.K, []byte(prefix)) {
			return true
		}
	}
	return false
}

// Key builders (Appendix C of DESIGN.md; verified against dumps).
func kBalance(a keys.Address, cur string) string { return "b_" + a.String() + "_" + cur }
func kValidator(a keys.Address) string           { return "v_" + string(a) }
func kStakeTotal(v keys.Address) string          { return "st__t_" + v.String() }
func kStakeBound(s keys.Address) string          { return "st__d_b_" + s.String() }
func kStatus(v keys.Address) string              { return "es__vss_" + v.String() }
func kFrozen(v keys.Address) string              { return "es__ssvk_" + v.String() }
func kRequest(id string) string                  { return "es__ark_" + id }
func kDelegActive(d keys.Address) string         { return "deleg_a_" + d.String() }
func kDelegRewards(d keys.Address) string        { return "delegRwz_balance_" + d.String() }
func kRewardBalance(v keys.Address) string       { return "rwcum_balance_" + v.String() }
func kRewardWithdrawn(v keys.Address) string     { return "rwcum_withdrawn_" + v.String() }

var (
	delegationPool = keys.Address("00000000000000000001")
	rewardsPool    = keys.Address("rewardpool")
	bountyPool     = keys.Address("oneledgerBountyProgram")
	feePool        = keys.Address("00000000000000000000")
)

// inTMSet reports whether validator v is in the set that validates the NEXT block.
func inTMSet(x *harness.Run, v *harness.ValSpec) bool {
	_, val := x.C.Vals.GetByAddress(v.Val.TM.PubKey().Address())
	return val != nil
}

func wantTM(x *harness.Run, v *harness.ValSpec, want bool) error {
	if got := inTMSet(x, v); got != want {
		return fmt.Errorf("validator %s in Tendermint set: %v, want %v", v.Name, got, want)
	}
	return nil
}

func wantKey(x *harness.Run, key string, want bool) error {
	if _, ok := Lookup(x, key); ok != want {
		return fmt.Errorf("key %q present: %v, want %v", key, ok, want)
	}
	return nil
}

func wantValue(x *harness.Run, key, want string) error {
	v, ok := Lookup(x, key)
	if !ok || string(v) != want {
		return fmt.Errorf("key %q = %q (present %v), want %q", key, v, ok, want)
	}
	return nil
}

func wantContains(x *harness.Run, key, sub string) error {
	v, ok := Lookup(x, key)
	if !ok || !bytes.Contains(v, []byte(sub)) {
		return fmt.Errorf("key %q = %q (present %v), want it to contain %q", key, v, ok, sub)
	}
	return nil
}

func firstErr(errs ...error) error {
	for _, e := range errs {
		if e != nil {
			return e
		}
	}
	return nil
}

// ---------------------------------------------------------------------------------------------
// the catalogue
// ---------------------------------------------------------------------------------------------

type entry struct {
	sc *harness.Scenario
	ex Expect
}

const reqID = "verif-allegation-1"

func catalogue() []entry {
	var out []entry
	add := func(kind action.Type, note string, world func() *harness.World,
		prefix func(w *harness.World) []harness.BlockSpec, target func(w *harness.World) *harness.TxSpec,
		after int, ex Expect) {
		out = append(out, entry{
			sc: &harness.Scenario{Kind: kind.String(), Note: note, World: world, Prefix: prefix, Target: target, After: after},
			ex: ex,
		})
	}
	type W = harness.World
	type B = harness.BlockSpec
	type T = harness.TxSpec

	// ------------------------------------------------------------------ SEND
	add(action.SEND, "send-olt", defaultWorld("send-olt"),
		func(w *W) []B { return empties(1) },
		func(w *W) *T { return Send(w.Users[0], w.Users[1].Addr, OLT(5), "send-1") },
		1, Expect{Touched: []string{"b_"}})
	add(action.SEND, "send-eth-currency", defaultWorld("send-eth"),
		func(w *W) []B { return empties(1) },
		func(w *W) *T {
			return Send(w.Users[0], w.Users[1].Addr, Coin("ETH", harness.Amt("1000000000000000000")), "send-eth-1")
		},
		1, Expect{Touched: []string{"b_"}})
	add(action.SEND, "send-to-fresh-address", defaultWorld("send-fresh"),
		func(w *W) []B { return empties(1) },
		func(w *W) *T {
			return Send(w.Users[0], harness.NewAccount("fresh-recipient").Addr, OLT(7), "send-fresh-1")
		},
		1, Expect{
			Touched: []string{kBalance(harness.NewAccount("fresh-recipient").Addr, "OLT")},
			Final: func(x *harness.Run) error {
				return wantValue(x, kBalance(harness.NewAccount("fresh-recipient").Addr, "OLT"), `"7000000000000000000"`)
			},
		})

	// ------------------------------------------------------------------ SENDPOOL
	for _, p := range []struct {
		note, pool string
		addr       keys.Address
	}{
		{"sendpool-rewards", "RewardsPool", rewardsPool},
		{"sendpool-bounty", "BountyPool", bountyPool},
		{"sendpool-fee", "FeePool", feePool},
	} {
		p := p
		add(action.SENDPOOL, p.note, defaultWorld(p.note),
			func(w *W) []B { return empties(1) },
			func(w *W) *T { return SendPool(w.Users[0], p.pool, OLT(100), p.note) },
			2, Expect{Touched: []string{kBalance(p.addr, "OLT")}})
	}
	// a donation to the delegation pool dilutes the delegators' share of the block rewards
	add(action.SENDPOOL, "sendpool-delegation-dilutes", defaultWorld("sendpool-deleg"),
		func(w *W) []B {
			return seq(empties(1), one(blk(Delegate(w.Users[0], OLT(1000000), "d-1"))), empties(1))
		},
		func(w *W) *T { return SendPool(w.Users[1], "DelegationPool", OLT(500000), "sp-deleg") },
		3, Expect{Touched: []string{kBalance(delegationPool, "OLT")}})

	// ------------------------------------------------------------------ STAKE
	add(action.STAKE, "stake-more-existing-validator", defaultWorld("stake-more"),
		func(w *W) []B { return empties(2) },
		func(w *W) *T { return Stake(w.Vals[0], w.Vals[0].Stake, WholeOLT(100000), "stake-more-1") },
		3, Expect{
			Touched: []string{"st__t_", "st__e_", "st__d_e_", "v_", "b_"},
			Final: func(x *harness.Run) error {
				v := x.W.Vals[0]
				_, tv := x.C.Vals.GetByAddress(v.Val.TM.PubKey().Address())
				if tv == nil || tv.VotingPower != 3100000 {
					return fmt.Errorf("V1 Tendermint power %v, want 3100000", tv)
				}
				return wantValue(x, kStakeTotal(v.Val.Addr), `"3100000"`)
			},
		})
	add(action.STAKE, "stake-new-validator", defaultWorld("stake-new"),
		func(w *W) []B { return empties(2) },
		func(w *W) *T { return Stake(w.Vals[3], w.Vals[3].Stake, WholeOLT(600000), "stake-new-1") },
		5, Expect{
			Touched: []string{"st__t_", "v_"},
			Final: func(x *harness.Run) error {
				v := x.W.Vals[3]
				return firstErr(wantTM(x, v, true), wantContains(x, kStatus(v.Val.Addr), `"isActive":true`),
					wantKey(x, kValidator(v.Val.Addr), true))
			},
		})
	// a SELF-STAKED node: the validator's own account is its stake account, so ONE account holds both signer roles
	// of the transaction and signs twice. (Added after a seeded change - a repeated signer verified only once, the
	// signature bytes of its second slot never looked at - escaped the signature operators: every two-signer
	// scenario had two different accounts.)
	add(action.STAKE, "stake-new-validator-that-is-its-own-stake-account", defaultWorld("stake-self"),
		func(w *W) []B {
			return seq(empties(2), one(blk(Send(w.Users[0], w.Vals[3].Val.Addr, harness.Coin("OLT", harness.OLTUnits(2000000)), "fund-the-node"))))
		},
		func(w *W) *T {
			v := w.Vals[3]
			return StakeRaw(v.Val, v.Val, v.Val.Pub, v.Ecdsa.Pub, v.Name, WholeOLT(600000), "stake-self-1")
		},
		5, Expect{
			Touched: []string{"st__t_", "v_"},
			Final: func(x *harness.Run) error {
				v := x.W.Vals[3]
				return firstErr(wantTM(x, v, true), wantKey(x, kValidator(v.Val.Addr), true))
			},
		})
	// a SWAP: in the block in which the new validator stakes, a seated one unstakes everything. Both changes reach
	// Tendermint through the same EndBlock, so two blocks later the validator set has the same SIZE and another
	// member; anything a node keeps in memory about "the members of the last commit" and refreshes by size is wrong
	// from then on - on a node that kept running, not on one that was restarted. (Added after a seeded change - the
	// map of last-commit members rebuilt only when its size changes - escaped every crash point of every history:
	// validators only ever joined or left alone.)
	out = append(out, entry{
		sc: &harness.Scenario{Kind: action.STAKE.String(), Note: "multi-new-validator-joins-in-the-block-in-which-another-one-unstakes-everything",
			World:  defaultWorld("stake-swap"),
			Prefix: func(w *W) []B { return empties(2) },
			Target: func(w *W) *T { return Stake(w.Vals[3], w.Vals[3].Stake, WholeOLT(600000), "swap-stake") },
			Also: func(w *W) []*T {
				v := w.Vals[2]
				return []*T{Unstake(v.Val, v.Stake, WholeOLT(1000000), "swap-unstake")}
			},
			After: 8},
		ex: Expect{
			Touched: []string{"st__t_", "v_"},
			Final: func(x *harness.Run) error {
				in, out := x.W.Vals[3], x.W.Vals[2]
				return firstErr(wantTM(x, in, true), wantTM(x, out, false), wantKey(x, kValidator(out.Val.Addr), false))
			},
		}})
	add(action.STAKE, "stake-new-validator-below-minimum", defaultWorld("stake-low"),
		func(w *W) []B { return empties(2) },
		func(w *W) *T { return Stake(w.Vals[3], w.Vals[3].Stake, WholeOLT(1000), "stake-low-1") },
		4, Expect{
			Touched: []string{"st__t_", "v_"},
			Final: func(x *harness.Run) error {
				v := x.W.Vals[3]
				return firstErr(wantTM(x, v, false), wantContains(x, kStatus(v.Val.Addr), `"isActive":false`))
			},
		})
	add(action.STAKE, "restake-after-drop-out", defaultWorld("restake"),
		func(w *W) []B {
			v := w.Vals[2]
			return seq(empties(1), one(blk(Unstake(v.Val, v.Stake, WholeOLT(1000000), "rs-unstake"))), empties(4))
		},
		func(w *W) *T { return Stake(w.Vals[2], w.Vals[2].Stake, WholeOLT(800000), "rs-stake") },
		4, Expect{
			Touched: []string{"st__t_", "v_"},
			Final: func(x *harness.Run) error {
				v := x.W.Vals[2]
				return firstErr(wantTM(x, v, true), wantValue(x, kStakeTotal(v.Val.Addr), `"800000"`))
			},
		})

	// The only reachable way into the "update stake address" branch: the old stake address must be clean
	// (nothing locked, maturing or bounded), i.e. the record has zero stake - which exists for one block
	// only (here created by a zero stake). As implemented the record is then deleted by EndBlock of the
	// target's block (the decision uses the previous version's power 0) although 600000 are now staked.
	add(action.STAKE, "stake-change-stake-address-on-zero-power-record", defaultWorld("stake-addr"),
		func(w *W) []B {
			return seq(empties(2), one(blk(Stake(w.Vals[3], w.Vals[3].Stake, WholeOLT(0), "sa-zero"))))
		},
		func(w *W) *T { return Stake(w.Vals[3], w.Users[1], WholeOLT(600000), "sa-target") },
		3, Expect{
			Touched: []string{"st__t_", "st__e_", "st__d_e_", "b_"},
			Final: func(x *harness.Run) error {
				v := x.W.Vals[3]
				return firstErr(wantValue(x, kStakeTotal(v.Val.Addr), `"600000"`),
					wantValue(x, "st__e_"+v.Val.Addr.String()+"_"+x.W.Users[1].Addr.String(), `"600000"`))
			},
		})

	// ------------------------------------------------------------------ UNSTAKE
	add(action.UNSTAKE, "unstake-part", defaultWorld("unstake-part"),
		func(w *W) []B { return empties(2) },
		func(w *W) *T { return Unstake(w.Vals[0].Val, w.Vals[0].Stake, WholeOLT(100000), "unstake-part-1") },
		3, Expect{
			Touched: []string{"st__t_", "st__m_", "v_"},
			Final: func(x *harness.Run) error {
				v := x.W.Vals[0]
				return firstErr(wantValue(x, kStakeTotal(v.Val.Addr), `"2900000"`),
					wantValue(x, kStakeBound(v.Stake.Addr), `"100000"`), wantTM(x, v, true))
			},
		})
	add(action.UNSTAKE, "unstake-all", defaultWorld("unstake-all"),
		func(w *W) []B { return empties(2) },
		func(w *W) *T { return Unstake(w.Vals[2].Val, w.Vals[2].Stake, WholeOLT(1000000), "unstake-all-1") },
		4, Expect{
			Touched: []string{"st__t_", "st__m_", "v_"},
			Final: func(x *harness.Run) error {
				v := x.W.Vals[2]
				return firstErr(wantKey(x, kValidator(v.Val.Addr), false), wantTM(x, v, false),
					wantValue(x, kStakeBound(v.Stake.Addr), `"1000000"`),
					wantContains(x, kStatus(v.Val.Addr), `"isActive":false`))
			},
		})
	add(action.UNSTAKE, "unstake-below-minimum", defaultWorld("unstake-below"),
		func(w *W) []B { return empties(2) },
		func(w *W) *T { return Unstake(w.Vals[2].Val, w.Vals[2].Stake, WholeOLT(600000), "unstake-below-1") },
		4, Expect{
			Touched: []string{"st__t_", "st__m_", "v_"},
			Final: func(x *harness.Run) error {
				v := x.W.Vals[2]
				return firstErr(wantKey(x, kValidator(v.Val.Addr), true), wantTM(x, v, false),
					wantContains(x, kStatus(v.Val.Addr), `"isActive":false`))
			},
		})

	// ------------------------------------------------------------------ WITHDRAW
	add(action.WITHDRAW, "withdraw-after-maturity", defaultWorld("withdraw"),
		func(w *W) []B {
			v := w.Vals[0]
			return seq(empties(1), one(blk(Unstake(v.Val, v.Stake, WholeOLT(100000), "wd-unstake"))), empties(2))
		},
		func(w *W) *T { return Withdraw(w.Vals[0].Val, w.Vals[0].Stake, WholeOLT(100000), "wd-1") },
		1, Expect{
			Touched: []string{"st__d_b_", "b_"},
			Final: func(x *harness.Run) error {
				return wantValue(x, kStakeBound(x.W.Vals[0].Stake.Addr), `"0"`)
			},
		})
	add(action.WITHDRAW, "withdraw-part-after-validator-gone", defaultWorld("withdraw-gone"),
		func(w *W) []B {
			v := w.Vals[2]
			return seq(empties(1), one(blk(Unstake(v.Val, v.Stake, WholeOLT(1000000), "wdg-unstake"))), empties(3))
		},
		func(w *W) *T { return Withdraw(w.Vals[2].Val, w.Vals[2].Stake, WholeOLT(400000), "wdg-1") },
		1, Expect{
			Touched: []string{"st__d_b_", "b_"},
			Final: func(x *harness.Run) error {
				v := x.W.Vals[2]
				return firstErr(wantValue(x, kStakeBound(v.Stake.Addr), `"600000"`), wantKey(x, kValidator(v.Val.Addr), false))
			},
		})

	// ------------------------------------------------------------------ ADD_NETWORK_DELEGATE
	add(action.ADD_NETWORK_DELEGATE, "delegate", defaultWorld("delegate"),
		func(w *W) []B { return empties(1) },
		func(w *W) *T { return Delegate(w.Users[0], OLT(1000000), "delegate-1") },
		3, Expect{
			Touched: []string{"deleg_a_", kBalance(delegationPool, "OLT")},
			Final: func(x *harness.Run) error {
				// rewards accrue from the next block on
				return wantKey(x, kDelegRewards(x.W.Users[0].Addr), true)
			},
		})
	add(action.ADD_NETWORK_DELEGATE, "delegate-again-second-delegator", defaultWorld("delegate2"),
		func(w *W) []B {
			return seq(empties(1), one(blk(Delegate(w.Users[0], OLT(1000000), "d2-a"), Delegate(w.Users[1], OLT(250000), "d2-b"))), empties(1))
		},
		func(w *W) *T { return Delegate(w.Users[0], OLT(500000), "d2-target") },
		2, Expect{Touched: []string{"deleg_a_", kBalance(delegationPool, "OLT")}})

	// ------------------------------------------------------------------ NETWORK_UNDELEGATE
	add(action.NETWORK_UNDELEGATE, "undelegate-part-matures", defaultWorld("undelegate"),
		func(w *W) []B {
			return seq(empties(1), one(blk(Delegate(w.Users[0], OLT(1000000), "ud-d"))), empties(1))
		},
		func(w *W) *T { return Undelegate(w.Users[0], OLT(400000), "ud-1") },
		5, Expect{
			Touched: []string{"deleg_a_", "deleg_p_", kBalance(delegationPool, "OLT")},
			Final: func(x *harness.Run) error {
				// target at height 4, pending at 8, paid out and zeroed in BeginBlock(8)
				return wantContains(x, "deleg_p_8_"+x.W.Users[0].Addr.String(), `"amount":"IjAi"`)
			},
		})
	add(action.NETWORK_UNDELEGATE, "undelegate-all", defaultWorld("undelegate-all"),
		func(w *W) []B {
			return seq(empties(1), one(blk(Delegate(w.Users[0], OLT(1000000), "uda-d"))), empties(1))
		},
		func(w *W) *T { return Undelegate(w.Users[0], OLT(1000000), "uda-1") },
		5, Expect{
			Touched: []string{"deleg_a_", "deleg_p_", kBalance(delegationPool, "OLT")},
			Final: func(x *harness.Run) error {
				return wantValue(x, kBalance(delegationPool, "OLT"), `"0"`)
			},
		})

	// ------------------------------------------------------------------ delegation rewards
	delegPrefix := func(tag string) func(w *W) []B {
		return func(w *W) []B {
			return seq(empties(1), one(blk(Delegate(w.Users[0], OLT(1000000), tag+"-d"))), empties(3))
		}
	}
	tenth := Coin("OLT", harness.Amt("50000000000000000")) // 0.05 OLT; about 0.04 OLT accrue per block (0.12 by height 5)
	add(action.REWARDS_WITHDRAW_NETWORK_DELEGATE, "deleg-rewards-withdraw-matures", defaultWorld("deleg-rw"),
		delegPrefix("drw"),
		func(w *W) *T { return DelegWithdrawRewards(w.Users[0], tenth, "drw-1") },
		5, Expect{
			Touched: []string{"delegRwz_balance_", "delegRwz_pending_"},
			Final: func(x *harness.Run) error {
				// target at height 6, pending at 10, paid out and zeroed in BeginBlock(10)
				return wantValue(x, "delegRwz_pending_10_"+x.W.Users[0].Addr.String(), `"0"`)
			},
		})
	add(action.REWARDS_REINVEST_NETWORK_DELEGATE, "deleg-rewards-reinvest", defaultWorld("deleg-ri"),
		delegPrefix("dri"),
		func(w *W) *T { return DelegReinvestRewards(w.Users[0], tenth, "dri-1") },
		2, Expect{Touched: []string{"delegRwz_balance_", "deleg_a_", kBalance(delegationPool, "OLT")}})

	// ------------------------------------------------------------------ WITHDRAW_REWARD
	// default world: V1 earns about 0.17 OLT per block; the chunk of interval n-2 matures at every even
	// height; the matured balance passes one whole OLT (the unit of this kind) at height 10 (1.33 at 12)
	add(action.WITHDRAW_REWARD, "withdraw-reward-after-intervals", defaultWorld("wreward"),
		func(w *W) []B { return empties(12) },
		func(w *W) *T { return WithdrawReward(w.Vals[0].Val.Addr, w.Vals[0].Stake, WholeOLT(1), "wr-1") },
		2, Expect{Touched: []string{"rwcum_balance_", "rwcum_withdrawn_", kBalance(rewardsPool, "OLT")}})
	add(action.WITHDRAW_REWARD, "withdraw-reward-rich-world", richRewardsWorld("wreward-rich"),
		func(w *W) []B { return empties(6) },
		func(w *W) *T { return WithdrawReward(w.Vals[1].Val.Addr, w.Vals[1].Stake, WholeOLT(20), "wrr-1") },
		2, Expect{
			Touched: []string{"rwcum_balance_", "rwcum_withdrawn_", kBalance(rewardsPool, "OLT")},
			Final: func(x *harness.Run) error {
				return wantValue(x, kRewardWithdrawn(x.W.Vals[1].Val.Addr), `"20000000000000000000"`)
			},
		})
	// as implemented: once the validator record is gone ANY signer may withdraw the validator's rewards
	add(action.WITHDRAW_REWARD, "withdraw-reward-third-party-after-validator-gone", richRewardsWorld("wreward-gone"),
		func(w *W) []B {
			v := w.Vals[2]
			// (the record of a validator that unstaked everything is kept until it has left Tendermint's set)
			return seq(empties(5), one(blk(Unstake(v.Val, v.Stake, WholeOLT(1000000), "wrg-unstake"))), empties(6))
		},
		func(w *W) *T { return WithdrawReward(w.Vals[2].Val.Addr, w.Users[2], WholeOLT(5), "wrg-1") },
		1, Expect{
			Touched: []string{"rwcum_balance_", "rwcum_withdrawn_", kBalance(rewardsPool, "OLT")},
			Final: func(x *harness.Run) error {
				return wantKey(x, kValidator(x.W.Vals[2].Val.Addr), false)
			},
		})

	// ------------------------------------------------------------------ evidence
	// Status records (es__vss_) are first written by EndBlock(2): allegations are possible from block 3.
	// 3 active validators: required votes = ceil(3*50/100) = 2; GUILTY needs yes/2 > 0.5 (2 yes),
	// INNOCENT needs no/2 > 0.5 (2 no).
	alleg := func(w *W, memo string) *T {
		return Allegation(reqID, w.Vals[0].Val, w.Vals[2].Val.Addr, 1, "double signing at height 1", memo)
	}
	add(action.ALLEGATION, "allegation-opens-request", defaultWorld("alleg"),
		func(w *W) []B { return empties(2) },
		func(w *W) *T { return alleg(w, "al-1") },
		2, Expect{
			Touched: []string{"es__ark_", "es__atark", kBalance(harness.NewWorld("k", 4, 3).Vals[0].Stake.Addr, "OLT")},
			Final: func(x *harness.Run) error {
				return wantContains(x, kRequest(reqID), `"Status":1`)
			},
		})
	add(action.ALLEGATION_VOTE, "vote-yes-no-verdict-yet", defaultWorld("vote-first"),
		func(w *W) []B { return seq(empties(2), one(blk(alleg(w, "vf-al")))) },
		func(w *W) *T { return AllegationVote(reqID, w.Vals[0].Val, Yes, "vf-1") },
		2, Expect{
			Touched: []string{"es__ark_"},
			Final: func(x *harness.Run) error {
				return firstErr(wantContains(x, kRequest(reqID), `"Status":1`), wantKey(x, kFrozen(x.W.Vals[2].Val.Addr), false))
			},
		})
	guiltyPrefix := func(tag string) func(w *W) []B {
		return func(w *W) []B {
			return seq(empties(2), one(blk(alleg(w, tag+"-al"))), one(blk(AllegationVote(reqID, w.Vals[0].Val, Yes, tag+"-v1"))))
		}
	}
	add(action.ALLEGATION_VOTE, "vote-yes-guilty-verdict", defaultWorld("vote-guilty"),
		guiltyPrefix("vg"),
		func(w *W) *T { return AllegationVote(reqID, w.Vals[1].Val, Yes, "vg-v2") },
		4, Expect{
			// verdict in the EndBlock of the target's block: request deleted, frozen record, stake cut,
			// bounty credited
			Touched: []string{"es__ark_", "es__ssvk_", "st__t_", kBalance(bountyPool, "OLT")},
			Final: func(x *harness.Run) error {
				v := x.W.Vals[2]
				return firstErr(
					wantKey(x, kRequest(reqID), false),
					wantContains(x, kFrozen(v.Val.Addr), `"Status":2`),
					wantValue(x, kStakeTotal(v.Val.Addr), `"700000"`),                       // 30 % of 1 000 000 cut
					wantValue(x, kBalance(bountyPool, "OLT"), `"150000000000000000000000"`), // half of the cut
					wantContains(x, kStatus(v.Val.Addr), `"isActive":false`),
					wantTM(x, v, false))
			},
		})
	add(action.ALLEGATION_VOTE, "vote-no-innocent-verdict", defaultWorld("vote-innocent"),
		func(w *W) []B {
			return seq(empties(2), one(blk(alleg(w, "vi-al"))), one(blk(AllegationVote(reqID, w.Vals[1].Val, No, "vi-v1"))))
		},
		func(w *W) *T { return AllegationVote(reqID, w.Vals[2].Val, No, "vi-v2") }, // the accused votes too
		2, Expect{
			Touched: []string{"es__ark_", "es__atark"},
			Final: func(x *harness.Run) error {
				v := x.W.Vals[2]
				return firstErr(wantKey(x, kRequest(reqID), false), wantKey(x, kFrozen(v.Val.Addr), false), wantTM(x, v, true))
			},
		})
	add(action.RELEASE, "release-after-guilty-and-release-time", defaultWorld("release-guilty"),
		func(w *W) []B {
			// verdict at height 5 (FrozenAt = time of block 5); ValidatorReleaseTime = 1 day. CheckTx runs
			// against the header of the last begun block, so the long step comes one block before the target.
			return seq(guiltyPrefix("rg")(w), one(blk(AllegationVote(reqID, w.Vals[1].Val, Yes, "rg-v2"))),
				empties(1), one(harness.BlockSpec{Dt: 25 * time.Hour}))
		},
		func(w *W) *T { return Release(w.Vals[2].Val, "rg-release") },
		4, Expect{
			Touched: []string{"es__ssvk_"},
			Final: func(x *harness.Run) error {
				v := x.W.Vals[2]
				_, tv := x.C.Vals.GetByAddress(v.Val.TM.PubKey().Address())
				if tv == nil || tv.VotingPower != 700000 {
					return fmt.Errorf("V3 Tendermint power after release %v, want 700000", tv)
				}
				return firstErr(wantContains(x, kFrozen(v.Val.Addr), `"ReleaseHeight":8`),
					wantContains(x, kStatus(v.Val.Addr), `"isActive":true`))
			},
		})
	// the same release around a DAYLIGHT-SAVING change: the chain starts on 13 March 2021 noon UTC, the verdict
	// falls a minute later, US clocks go forward at 07:00 UTC the next morning. A release sent 23.5 hours after the
	// verdict is too early by the chain's clock whatever a node's own time zone says ("one day" = 24 hours of
	// block time); the target comes after the full day. (Added after a seeded change - the release time computed
	// with calendar days of the node's LOCAL zone - escaped replicas that all ran in UTC; the outsider replica of
	// the determinism check now runs in America/New_York.)
	add(action.RELEASE, "release-a-day-after-the-verdict-across-a-daylight-saving-change", func() *harness.World {
		w := harness.NewWorld("stk-release-dst", 4, 3)
		w.GenesisTime = time.Date(2021, 3, 13, 12, 0, 0, 0, time.UTC)
		return w
	},
		func(w *W) []B {
			return seq(guiltyPrefix("rd")(w), one(blk(AllegationVote(reqID, w.Vals[1].Val, Yes, "rd-v2"))),
				empties(1), one(harness.BlockSpec{Dt: 23*time.Hour + 30*time.Minute}),
				one(harness.BlockSpec{Txs: []*T{Release(w.Vals[2].Val, "rd-release-too-early")}, MayFail: true}), one(harness.BlockSpec{Dt: time.Hour}))
		},
		func(w *W) *T { return Release(w.Vals[2].Val, "rd-release") },
		4, Expect{Touched: []string{"es__ssvk_"}})
	// the same verdict and release on a YOUNG chain: with main-net options the vote window (BlockVotesDiff) is 1000
	// blocks and more, so every short history of a new chain - and of any chain right after governance widened the
	// window - lies inside the first window, where the missed-votes scan of BeginBlock returns early. The scaled-down
	// worlds (window of 3 blocks) leave that regime at block 4. (Added after a seeded change - the in-memory list of
	// excluded validators rebuilt on the full-scan path only, so that a released validator stayed excluded on a
	// running node but not on a restarted one - escaped every crash point of every history.)
	youngWorld := func(name string) func() *harness.World {
		return func() *harness.World {
			w := harness.NewWorld("stk-"+name, 4, 3)
			w.Gov.EvidenceOptions.BlockVotesDiff = 1000
			w.Gov.EvidenceOptions.MinVotesRequired = 700
			return w
		}
	}
	add(action.ALLEGATION_VOTE, "vote-yes-guilty-verdict-on-a-chain-younger-than-the-vote-window", youngWorld("vote-guilty-young"),
		guiltyPrefix("vy"),
		func(w *W) *T { return AllegationVote(reqID, w.Vals[1].Val, Yes, "vy-v2") },
		4, Expect{Touched: []string{"es__ark_", "es__ssvk_", "st__t_"}})
	add(action.RELEASE, "release-after-guilty-on-a-chain-younger-than-the-vote-window", youngWorld("release-guilty-young"),
		func(w *W) []B {
			return seq(guiltyPrefix("ry")(w), one(blk(AllegationVote(reqID, w.Vals[1].Val, Yes, "ry-v2"))),
				empties(1), one(harness.BlockSpec{Dt: 25 * time.Hour}))
		},
		func(w *W) *T { return Release(w.Vals[2].Val, "ry-release") },
		5, Expect{
			Touched: []string{"es__ssvk_"},
			Final: func(x *harness.Run) error {
				v := x.W.Vals[2]
				return firstErr(wantContains(x, kStatus(v.Val.Addr), `"isActive":true`), wantTM(x, v, true))
			},
		})
	add(action.RELEASE, "release-after-missed-votes", missedVotesWorld("release-missed"),
		func(w *W) []B {
			// V3 misses the commits seen by blocks 4 and 5: 1 signature in the window (3,4,5) < 2 => frozen in
			// BeginBlock(5) with status MISSED_REQUIRED_VOTES, power-0 update in EndBlock(5).
			return seq(empties(3), one(B{Absent: []int{2}}), one(B{Absent: []int{2}}))
		},
		func(w *W) *T { return Release(w.Vals[2].Val, "rm-release") },
		2, Expect{
			Touched: []string{"es__ssvk_"},
			Final: func(x *harness.Run) error {
				v := x.W.Vals[2]
				return firstErr(wantContains(x, kFrozen(v.Val.Addr), `"Status":1`), wantContains(x, kFrozen(v.Val.Addr), `"ReleaseHeight":6`))
			},
		})
	return out
}

// Scenarios returns the history catalogue of this group.
func Scenarios() []*harness.Scenario {
	var out []*harness.Scenario
	for _, e := range catalogue() {
		out = append(out, e.sc)
	}
	return out
}

// ExpectOf returns the expectations of a scenario of this package (matched by ScenarioID).
func ExpectOf(sc *harness.Scenario) (Expect, bool) {
	id := ScenarioID(sc)
	for _, e := range catalogue() {
		if ScenarioID(e.sc) == id {
			return e.ex, true
		}
	}
	return Expect{}, false
}
