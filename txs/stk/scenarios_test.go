package stk

import (
	"bytes"
	"fmt"
	"os"
	"sort"
	"strings"
	"testing"

	"github.com/Oneledger/protocol/data/keys"

	"verif/harness"
)

// The application logs to fd 1 and (through loggers and fmt.Print calls evaluated later) to whatever
// os.Stdout is at that moment, while the testing package captures os.Stdout once inside m.Run(). So:
// silence fd 1 first, let the testing package capture the saved real stdout, and point os.Stdout back
// at the silenced fd 1 while a test body runs (quiet()).
var appStdout, testStdout *os.File

func TestMain(m *testing.M) {
	harness.SilenceStdout()
	appStdout = os.Stdout
	testStdout = harness.Out()
	os.Stdout = testStdout
	code := m.Run()
	harness.RemoveScratch()
	os.Exit(code)
}

func quiet() func() {
	harness.SilenceStdout()
	os.Stdout = appStdout
	return func() { os.Stdout = testStdout }
}

func printable(b []byte) string {
	var sb strings.Builder
	for _, c := range b {
		if c >= 32 && c < 127 {
			sb.WriteByte(c)
		} else {
			sb.WriteString(fmt.Sprintf("\\x%02x", c))
		}
	}
	s := sb.String()
	if len(s) > 300 {
		s = s[:300] + "..."
	}
	return s
}

// diffKeys returns the keys whose presence or value differs between two dumps (sorted).
func diffKeys(a, b []harness.KV) []string {
	ma := map[string][]byte{}
	for _, kv := range a {
		ma[string(kv.K)] = kv.V
	}
	mb := map[string][]byte{}
	for _, kv := range b {
		mb[string(kv.K)] = kv.V
	}
	var out []string
	for k, v := range ma {
		if w, ok := mb[k]; !ok || !bytes.Equal(v, w) {
			out = append(out, k)
		}
	}
	for k := range mb {
		if _, ok := ma[k]; !ok {
			out = append(out, k)
		}
	}
	sort.Strings(out)
	return out
}

func dumpDiff(t *testing.T, before, after []harness.KV) {
	m := map[string][]byte{}
	for _, kv := range before {
		m[string(kv.K)] = kv.V
	}
	seen := map[string]bool{}
	for _, kv := range after {
		seen[string(kv.K)] = true
		old, ok := m[string(kv.K)]
		if !ok {
			t.Logf("   + %s = %s", printable(kv.K), printable(kv.V))
		} else if !bytes.Equal(old, kv.V) {
			t.Logf("   ~ %s = %s  (was %s)", printable(kv.K), printable(kv.V), printable(old))
		}
	}
	for _, kv := range before {
		if !seen[string(kv.K)] {
			t.Logf("   - %s", printable(kv.K))
		}
	}
}

// controlDump runs the scenario's prefix followed by an EMPTY block in place of the target.
func controlDump(sc *harness.Scenario) ([]harness.KV, error) {
	w := sc.World()
	x, err := harness.StartRun(w)
	if err != nil {
		return nil, err
	}
	defer x.Close()
	if sc.Prefix != nil {
		for i, b := range sc.Prefix(w) {
			if _, err := x.Block(b); err != nil {
				return nil, fmt.Errorf("control prefix block %d: %v", i+1, err)
			}
		}
	}
	if err := x.Empty(1); err != nil {
		return nil, err
	}
	return x.R.Dump(), nil
}

func TestScenarios(t *testing.T) {
	defer quiet()()
	defer harness.RemoveScratch()
	only := os.Getenv("STK_ONLY") // substring filter, for debugging
	seen := map[string]bool{}
	kinds := map[string]int{}
	for _, sc := range Scenarios() {
		sc := sc
		id := ScenarioID(sc)
		if seen[id] {
			t.Errorf("duplicate scenario id %s", id)
		}
		seen[id] = true
		if only != "" && !strings.Contains(id, only) {
			continue
		}
		t.Run(id, func(t *testing.T) {
			ex, ok := ExpectOf(sc)
			if !ok {
				t.Fatalf("no expectations registered")
			}
			// 1. the full scenario
			x, chk, dlv, err := harness.RunScenario(sc)
			if x != nil {
				defer x.Close()
			}
			if err != nil {
				t.Fatalf("RunScenario: %v", err)
			}
			if x.R.Dead {
				t.Fatalf("application died (recovered panic) during the scenario")
			}
			if chk.Code != 0 {
				t.Fatalf("target CheckTx code %d: %s", chk.Code, chk.Log)
			}
			if dlv.Code != 0 {
				t.Fatalf("target DeliverTx code %d: %s", dlv.Code, dlv.Log)
			}
			if got := sc.Target(sc.World()).Type.String(); got != sc.Kind {
				t.Errorf("Kind %q but the target's type is %q", sc.Kind, got)
			}
			if ex.Final != nil {
				if err := ex.Final(x); err != nil {
					t.Errorf("delayed effects: %v", err)
				}
			}
			// 2. the state right after the target's block vs. an empty block in its place
			short := *sc
			short.After = 0
			y, _, _, err := harness.RunScenario(&short)
			if y != nil {
				defer y.Close()
			}
			if err != nil {
				t.Fatalf("RunScenario (no After): %v", err)
			}
			withTarget := y.R.Dump()
			control, err := controlDump(sc)
			if err != nil {
				t.Fatalf("control run: %v", err)
			}
			if harness.DigestOf(withTarget) == harness.DigestOf(control) {
				t.Fatalf("target block leaves the same state as an empty block")
			}
			changed := diffKeys(control, withTarget)
			for _, p := range ex.Touched {
				hit := false
				for _, k := range changed {
					if strings.HasPrefix(k, p) {
						hit = true
						break
					}
				}
				if !hit {
					t.Errorf("no key with prefix %q differs from the empty-block control", printable([]byte(p)))
				}
			}
			if testing.Verbose() || t.Failed() {
				var ks []string
				for _, k := range changed {
					ks = append(ks, printable([]byte(k)))
				}
				t.Logf("height of target %d, gas used %d, keys differing from control: %s", len(y.Results), dlv.GasUsed, strings.Join(ks, "  "))
			}
			kinds[sc.Kind]++
		})
	}
	if only == "" {
		for _, k := range AllKinds() {
			if kinds[k.String()] == 0 {
				t.Errorf("no passing scenario for kind %s", k)
			}
		}
	}
}

// ---------------------------------------------------------------------------------------------
// hostile constructor inputs: findings are only logged
// ---------------------------------------------------------------------------------------------

type hostileCase struct {
	name string
	tx   func(w *harness.World) *harness.TxSpec
}

func hostileCases() []hostileCase {
	type W = harness.World
	type T = harness.TxSpec
	xxxNeg := Coin("XXX", Int(-5))
	oltNeg := Coin("OLT", Int(-5))
	huge := Coin("OLT", harness.Amt("1"+strings.Repeat("0", 80)))
	third := func(w *W) keys.Address { return w.Users[1].Addr }
	var cs []hostileCase
	add := func(name string, f func(w *W) *T) { cs = append(cs, hostileCase{name, f}) }

	// SEND
	add("Send/xxx-negative", func(w *W) *T { return Send(w.Users[0], third(w), xxxNeg, "h") })
	add("Send/olt-negative", func(w *W) *T { return Send(w.Users[0], third(w), oltNeg, "h") })
	add("Send/huge", func(w *W) *T { return Send(w.Users[0], third(w), huge, "h") })
	add("Send/from-third-party", func(w *W) *T { return Send(AddrOnly(third(w)), w.Users[0].Addr, OLT(5), "h", w.Users[0]) })
	add("Send/no-signer", func(w *W) *T { t := Send(w.Users[0], third(w), OLT(5), "h"); t.Signers = nil; return t })
	add("Send/nil-to", func(w *W) *T { return Send(w.Users[0], nil, OLT(5), "h") })
	// SENDPOOL
	add("SendPool/xxx-negative", func(w *W) *T { return SendPool(w.Users[0], "RewardsPool", xxxNeg, "h") })
	add("SendPool/olt-negative", func(w *W) *T { return SendPool(w.Users[0], "RewardsPool", oltNeg, "h") })
	add("SendPool/unknown-pool", func(w *W) *T { return SendPool(w.Users[0], "NoSuchPool", OLT(5), "h") })
	add("SendPool/from-third-party", func(w *W) *T { return SendPool(AddrOnly(third(w)), "RewardsPool", OLT(5), "h", w.Users[0]) })
	// STAKE
	add("Stake/xxx-negative", func(w *W) *T { return Stake(w.Vals[3], w.Vals[3].Stake, xxxNeg, "h") })
	add("Stake/olt-negative", func(w *W) *T { return Stake(w.Vals[0], w.Vals[0].Stake, oltNeg, "h") })
	add("Stake/huge", func(w *W) *T { return Stake(w.Vals[0], w.Vals[0].Stake, huge, "h") })
	add("Stake/stake-address-third-party", func(w *W) *T {
		return StakeRaw(w.Vals[3].Val, AddrOnly(third(w)), w.Vals[3].Val.Pub, w.Vals[3].Ecdsa.Pub, "x", WholeOLT(600000), "h", w.Vals[3].Stake, w.Vals[3].Val)
	})
	add("Stake/existing-validator-foreign-stake-address", func(w *W) *T {
		return Stake(w.Vals[0], w.Users[1], WholeOLT(10), "h")
	})
	add("Stake/empty-pubkeys", func(w *W) *T {
		return StakeRaw(w.Vals[3].Val, w.Vals[3].Stake, keys.PublicKey{}, keys.PublicKey{}, "", WholeOLT(600000), "h")
	})
	add("Stake/pubkey-of-other-validator", func(w *W) *T {
		return StakeRaw(w.Vals[3].Val, w.Vals[3].Stake, w.Vals[0].Val.Pub, w.Vals[0].Ecdsa.Pub, "dup", WholeOLT(600000), "h")
	})
	add("Stake/nil-validator-address", func(w *W) *T {
		return StakeRaw(AddrOnly(nil), w.Vals[3].Stake, w.Vals[3].Val.Pub, w.Vals[3].Ecdsa.Pub, "x", WholeOLT(600000), "h", w.Vals[3].Stake, w.Vals[3].Val)
	})
	// UNSTAKE
	add("Unstake/xxx-negative", func(w *W) *T { return Unstake(w.Vals[0].Val, w.Vals[0].Stake, xxxNeg, "h") })
	add("Unstake/olt-negative", func(w *W) *T { return Unstake(w.Vals[0].Val, w.Vals[0].Stake, oltNeg, "h") })
	add("Unstake/huge", func(w *W) *T { return Unstake(w.Vals[0].Val, w.Vals[0].Stake, huge, "h") })
	add("Unstake/third-party-validator", func(w *W) *T {
		return Unstake(AddrOnly(w.Vals[1].Val.Addr), w.Vals[0].Stake, WholeOLT(10), "h", w.Vals[0].Stake, w.Vals[0].Val)
	})
	add("Unstake/third-party-stake-address", func(w *W) *T {
		return Unstake(w.Vals[0].Val, AddrOnly(w.Vals[1].Stake.Addr), WholeOLT(10), "h", w.Vals[0].Stake, w.Vals[0].Val)
	})
	add("Unstake/unknown-validator", func(w *W) *T { return Unstake(w.Users[0], w.Users[1], WholeOLT(10), "h") })
	// WITHDRAW
	add("Withdraw/xxx-negative", func(w *W) *T { return Withdraw(w.Vals[0].Val, w.Vals[0].Stake, xxxNeg, "h") })
	add("Withdraw/olt-negative", func(w *W) *T { return Withdraw(w.Vals[0].Val, w.Vals[0].Stake, oltNeg, "h") })
	add("Withdraw/huge", func(w *W) *T { return Withdraw(w.Vals[0].Val, w.Vals[0].Stake, huge, "h") })
	add("Withdraw/third-party-stake-address", func(w *W) *T {
		return Withdraw(w.Vals[0].Val, AddrOnly(w.Vals[1].Stake.Addr), WholeOLT(10), "h", w.Vals[0].Stake, w.Vals[0].Val)
	})
	// ADD_NETWORK_DELEGATE
	add("Delegate/xxx-negative", func(w *W) *T { return Delegate(w.Users[0], xxxNeg, "h") })
	add("Delegate/olt-negative", func(w *W) *T { return Delegate(w.Users[0], oltNeg, "h") })
	add("Delegate/huge", func(w *W) *T { return Delegate(w.Users[0], huge, "h") })
	add("Delegate/third-party", func(w *W) *T { return Delegate(AddrOnly(third(w)), OLT(5), "h", w.Users[0]) })
	// NETWORK_UNDELEGATE
	add("Undelegate/xxx-negative", func(w *W) *T { return Undelegate(w.Users[0], xxxNeg, "h") })
	add("Undelegate/olt-negative", func(w *W) *T { return Undelegate(w.Users[0], oltNeg, "h") })
	add("Undelegate/huge", func(w *W) *T { return Undelegate(w.Users[0], huge, "h") })
	add("Undelegate/third-party", func(w *W) *T { return Undelegate(AddrOnly(third(w)), OLT(5), "h", w.Users[0]) })
	// REWARDS_WITHDRAW_NETWORK_DELEGATE
	add("DelegWithdrawRewards/xxx-negative", func(w *W) *T { return DelegWithdrawRewards(w.Users[0], xxxNeg, "h") })
	add("DelegWithdrawRewards/olt-negative", func(w *W) *T { return DelegWithdrawRewards(w.Users[0], oltNeg, "h") })
	add("DelegWithdrawRewards/huge", func(w *W) *T { return DelegWithdrawRewards(w.Users[0], huge, "h") })
	add("DelegWithdrawRewards/third-party", func(w *W) *T { return DelegWithdrawRewards(AddrOnly(third(w)), OLT(5), "h", w.Users[0]) })
	// REWARDS_REINVEST_NETWORK_DELEGATE
	add("DelegReinvestRewards/xxx-negative", func(w *W) *T { return DelegReinvestRewards(w.Users[0], xxxNeg, "h") })
	add("DelegReinvestRewards/olt-negative", func(w *W) *T { return DelegReinvestRewards(w.Users[0], oltNeg, "h") })
	add("DelegReinvestRewards/huge", func(w *W) *T { return DelegReinvestRewards(w.Users[0], huge, "h") })
	add("DelegReinvestRewards/third-party", func(w *W) *T { return DelegReinvestRewards(AddrOnly(third(w)), OLT(5), "h", w.Users[0]) })
	// WITHDRAW_REWARD
	add("WithdrawReward/xxx-negative", func(w *W) *T { return WithdrawReward(w.Vals[0].Val.Addr, w.Vals[0].Stake, xxxNeg, "h") })
	add("WithdrawReward/olt-negative", func(w *W) *T { return WithdrawReward(w.Vals[0].Val.Addr, w.Vals[0].Stake, oltNeg, "h") })
	add("WithdrawReward/huge", func(w *W) *T { return WithdrawReward(w.Vals[0].Val.Addr, w.Vals[0].Stake, huge, "h") })
	add("WithdrawReward/third-party-signer", func(w *W) *T { return WithdrawReward(w.Vals[0].Val.Addr, w.Users[0], WholeOLT(1), "h") })
	add("WithdrawReward/unknown-validator", func(w *W) *T { return WithdrawReward(third(w), w.Users[0], WholeOLT(1), "h") })
	add("WithdrawReward/unknown-validator-negative", func(w *W) *T { return WithdrawReward(third(w), w.Users[0], oltNeg, "h") })
	// ALLEGATION
	add("Allegation/reporter-not-validator", func(w *W) *T {
		return Allegation("r1", w.Users[0], w.Vals[2].Val.Addr, 1, "p", "h")
	})
	add("Allegation/reporter-third-party-validator", func(w *W) *T {
		return Allegation("r1", AddrOnly(w.Vals[1].Val.Addr), w.Vals[2].Val.Addr, 1, "p", "h", w.Vals[0].Val)
	})
	add("Allegation/future-height-negative", func(w *W) *T {
		return Allegation("r1", w.Vals[0].Val, w.Vals[2].Val.Addr, -1<<62, "p", "h")
	})
	add("Allegation/malicious-is-user", func(w *W) *T {
		return Allegation("r1", w.Vals[0].Val, third(w), 1, "p", "h")
	})
	add("Allegation/nil-malicious", func(w *W) *T {
		return Allegation("", w.Vals[0].Val, nil, 1, "", "h")
	})
	add("Allegation/signed-by-stake-account", func(w *W) *T {
		return Allegation("r1", w.Vals[0].Val, w.Vals[2].Val.Addr, 1, "p", "h", w.Vals[0].Stake)
	})
	// ALLEGATION_VOTE
	add("AllegationVote/unknown-request", func(w *W) *T { return AllegationVote("nope", w.Vals[0].Val, Yes, "h") })
	add("AllegationVote/choice-out-of-range", func(w *W) *T { return AllegationVote("nope", w.Vals[0].Val, -128, "h") })
	add("AllegationVote/voter-not-validator", func(w *W) *T { return AllegationVote("nope", w.Users[0], Yes, "h") })
	add("AllegationVote/voter-third-party-validator", func(w *W) *T {
		return AllegationVote("nope", AddrOnly(w.Vals[1].Val.Addr), Yes, "h", w.Vals[0].Val)
	})
	// RELEASE
	add("Release/not-frozen", func(w *W) *T { return Release(w.Vals[0].Val, "h") })
	add("Release/not-validator", func(w *W) *T { return Release(w.Users[0], "h") })
	add("Release/third-party-validator", func(w *W) *T { return Release(AddrOnly(w.Vals[1].Val.Addr), "h", w.Vals[0].Val) })
	add("Release/no-signer", func(w *W) *T { t := Release(w.Vals[0].Val, "h"); t.Signers = nil; return t })
	return cs
}

func TestConstructorsHostile(t *testing.T) {
	defer quiet()()
	defer harness.RemoveScratch()
	only := os.Getenv("STK_ONLY")
	for _, hc := range hostileCases() {
		if only != "" && !strings.Contains(hc.name, only) {
			continue
		}
		// CheckTx and DeliverTx on two separate fresh runs so that a dead application in one does not
		// mask the other.
		var line []string
		for _, mode := range []string{"check", "deliver"} {
			w := harness.NewWorld("stk-hostile", 4, 3)
			x, err := harness.StartRun(w)
			if err != nil {
				t.Fatalf("%s: start: %v", hc.name, err)
			}
			if err := x.Empty(3); err != nil { // validator status records exist from EndBlock(2)
				x.Close()
				t.Fatalf("%s: %v", hc.name, err)
			}
			tx := hc.tx(w)
			tx.Memo = "hostile-" + hc.name
			before := harness.DigestOf(x.R.Dump())
			switch mode {
			case "check":
				r := x.R.CheckTx(tx.Bytes())
				line = append(line, fmt.Sprintf("CheckTx code=%d dead=%v log=%q", r.Code, x.R.Dead, short(r.Log)))
			case "deliver":
				res, err := x.Block(harness.BlockSpec{Txs: []*harness.TxSpec{tx}, NoCheck: true})
				code, log := uint32(0), ""
				if res != nil && len(res.Txs) == 1 {
					code, log = res.Txs[0].Code, res.Txs[0].Log
				}
				changed := "n/a"
				if !x.R.Dead {
					// compare with an empty block at the same height
					w2 := harness.NewWorld("stk-hostile", 4, 3)
					y, err2 := harness.StartRun(w2)
					if err2 == nil {
						if y.Empty(4) == nil {
							changed = fmt.Sprint(harness.DigestOf(y.R.Dump()) != harness.DigestOf(x.R.Dump()))
						}
						y.Close()
					}
				}
				_ = before
				line = append(line, fmt.Sprintf("DeliverTx code=%d dead=%v halt=%v stateDiffersFromEmptyBlock=%s log=%q", code, x.R.Dead, err, changed, short(log)))
			}
			x.Close()
		}
		t.Logf("%-55s %s", hc.name, strings.Join(line, " | "))
	}
}

func short(s string) string {
	if len(s) > 140 {
		return s[:140] + "..."
	}
	return s
}
