package stk

import (
	"bytes"
	"fmt"
	"os"
	"os/exec"
	"path/filepath"
	"sort"
	"strconv"
	"strings"
	"testing"

	"github.com/Oneledger/protocol/data/keys"

	"verif/harness"
)

// The application logs to fd 1 and (through loggers and fmt.Print calls evaluated later) to whatever
// os.Stdout is at that moment, while the testing package captures os.Stdout once inside m.Run(). So:
// silence fd 1 first, let the testing package capture the saved real stdout, and point os.Stdout back
// at the silenced fd 1 while a test body runs (quiet()).
var appStdout, testStdout *os.File

func TestMain(m *testing.M) {
	harness.SilenceStdout()
	appStdout = os.Stdout
	testStdout = harness.Out()
	os.Stdout = testStdout
	code := m.Run()
	harness.RemoveScratch()
	os.Exit(code)
}

func quiet() func() {
	// (harness.SilenceStdout() has run in TestMain; calling it again while os.Stdout is the saved real
	// stdout would make the harness take the silenced fd 1 for the real one)
	os.Stdout = appStdout
	return func() { os.Stdout = testStdout }
}

func printable(b []byte) string {
	var sb strings.Builder
	for _, c := range b {
		if c >= 32 && c < 127 {
			sb.WriteByte(c)
		} else {
			sb.WriteString(fmt.Sprintf("\\x%02x", c))
		}
	}
	s := sb.String()
	if len(s) > 300 {
		s = s[:300] + "..."
	}
	return s
}

// diffKeys returns the keys whose presence or value differs between two dumps (sorted).
func diffKeys(a, b []harness.KV) []string {
	ma := map[string][]byte{}
	for _, kv := range a {
		ma[string(kv.K)] = kv.V
	}
	mb := map[string][]byte{}
	for _, kv := range b {
		mb[string(kv.K)] = kv.V
	}
	var out []string
	for k, v := range ma {
		if w, ok := mb[k]; !ok || !bytes.Equal(v, w) {
			out = append(out, k)
		}
	}
	for k := range mb {
		if _, ok := ma[k]; !ok {
			out = append(out, k)
		}
	}
	sort.Strings(out)
	return out
}

func dumpDiff(t *testing.T, before, after []harness.KV) {
	m := map[string][]byte{}
	for _, kv := range before {
		m[string(kv.K)] = kv.V
	}
	seen := map[string]bool{}
	for _, kv := range after {
		seen[string(kv.K)] = true
		old, ok := m[string(kv.K)]
		if !ok {
			t.Logf("   + %s = %s", printable(kv.K), printable(kv.V))
		} else if !bytes.Equal(old, kv.V) {
			t.Logf("   ~ %s = %s  (was %s)", printable(kv.K), printable(kv.V), printable(old))
		}
	}
	for _, kv := range before {
		if !seen[string(kv.K)] {
			t.Logf("   - %s", printable(kv.K))
		}
	}
}

// controlDump runs the scenario's prefix followed by an EMPTY block in place of the target.
func controlDump(sc *harness.Scenario) ([]harness.KV, error) {
	w := sc.World()
	x, err := harness.StartRun(w)
	if err != nil {
		return nil, err
	}
	defer x.Close()
	if sc.Prefix != nil {
		for i, b := range sc.Prefix(w) {
			if _, err := x.Block(b); err != nil {
				return nil, fmt.Errorf("control prefix block %d: %v", i+1, err)
			}
		}
	}
	if err := x.Empty(1); err != nil {
		return nil, err
	}
	return x.R.Dump(), nil
}

func TestScenarios(t *testing.T) {
	defer quiet()()
	defer harness.RemoveScratch()
	only := os.Getenv("STK_ONLY") // substring filter, for debugging
	seen := map[string]bool{}
	kinds := map[string]int{}
	for _, sc := range Scenarios() {
		sc := sc
		id := ScenarioID(sc)
		if seen[id] {
			t.Errorf("duplicate scenario id %s", id)
		}
		seen[id] = true
		if only != "" && !strings.Contains(id, only) {
			continue
		}
		t.Run(id, func(t *testing.T) {
			ex, ok := ExpectOf(sc)
			if !ok {
				t.Fatalf("no expectations registered")
			}
			// 1. the full scenario
			x, chk, dlv, err := harness.RunScenario(sc)
			if x != nil {
				defer x.Close()
			}
			if err != nil {
				t.Fatalf("RunScenario: %v", err)
			}
			if x.R.Dead {
				t.Fatalf("application died (recovered panic) during the scenario")
			}
			if chk.Code != 0 {
				t.Fatalf("target CheckTx code %d: %s", chk.Code, chk.Log)
			}
			if dlv.Code != 0 {
				t.Fatalf("target DeliverTx code %d: %s", dlv.Code, dlv.Log)
			}
			if got := sc.Target(sc.World()).Type.String(); got != sc.Kind {
				t.Errorf("Kind %q but the target's type is %q", sc.Kind, got)
			}
			if ex.Final != nil {
				if err := ex.Final(x); err != nil {
					t.Errorf("delayed effects: %v", err)
				}
			}
			// 2. the state right after the target's block vs. an empty block in its place
			short := *sc
			short.After = 0
			y, _, _, err := harness.RunScenario(&short)
			if y != nil {
				defer y.Close()
			}
			if err != nil {
				t.Fatalf("RunScenario (no After): %v", err)
			}
			withTarget := y.R.Dump()
			control, err := controlDump(sc)
			if err != nil {
				t.Fatalf("control run: %v", err)
			}
			if harness.DigestOf(withTarget) == harness.DigestOf(control) {
				t.Fatalf("target block leaves the same state as an empty block")
			}
			changed := diffKeys(control, withTarget)
			for _, p := range ex.Touched {
				hit := false
				for _, k := range changed {
					if strings.HasPrefix(k, p) {
						hit = true
						break
					}
				}
				if !hit {
					t.Errorf("no key with prefix %q differs from the empty-block control", printable([]byte(p)))
				}
			}
			if testing.Verbose() || t.Failed() {
				var ks []string
				for _, k := range changed {
					ks = append(ks, printable([]byte(k)))
				}
				t.Logf("height of target %d, gas used %d, keys differing from control: %s", len(y.Results), dlv.GasUsed, strings.Join(ks, "  "))
			}
			kinds[sc.Kind]++
		})
	}
	if only == "" {
		for _, k := range AllKinds() {
			if kinds[k.String()] == 0 {
				t.Errorf("no passing scenario for kind %s", k)
			}
		}
	}
}

// ---------------------------------------------------------------------------------------------
// hostile constructor inputs: findings are only logged
// ---------------------------------------------------------------------------------------------

type hostileCase struct {
	name string
	tx   func(w *harness.World) *harness.TxSpec
}

func hostileCases() []hostileCase {
	type W = harness.World
	type T = harness.TxSpec
	xxxNeg := Coin("XXX", Int(-5))
	oltNeg := Coin("OLT", Int(-5))
	huge := Coin("OLT", harness.Amt("1"+strings.Repeat("0", 80)))
	third := func(w *W) keys.Address { return w.Users[1].Addr }
	var cs []hostileCase
	add := func(name string, f func(w *W) *T) { cs = append(cs, hostileCase{name, f}) }

	// SEND
	add("Send/xxx-negative", func(w *W) *T { return Send(w.Users[0], third(w), xxxNeg, "h") })
	add("Send/olt-negative", func(w *W) *T { return Send(w.Users[0], third(w), oltNeg, "h") })
	add("Send/huge", func(w *W) *T { return Send(w.Users[0], third(w), huge, "h") })
	add("Send/from-third-party", func(w *W) *T { return Send(AddrOnly(third(w)), w.Users[0].Addr, OLT(5), "h", w.Users[0]) })
	add("Send/no-signer", func(w *W) *T { t := Send(w.Users[0], third(w), OLT(5), "h"); t.Signers = nil; return t })
	add("Send/nil-to", func(w *W) *T { return Send(w.Users[0], nil, OLT(5), "h") })
	// SENDPOOL
	add("SendPool/xxx-negative", func(w *W) *T { return SendPool(w.Users[0], "RewardsPool", xxxNeg, "h") })
	add("SendPool/olt-negative", func(w *W) *T { return SendPool(w.Users[0], "RewardsPool", oltNeg, "h") })
	add("SendPool/unknown-pool", func(w *W) *T { return SendPool(w.Users[0], "NoSuchPool", OLT(5), "h") })
	add("SendPool/from-third-party", func(w *W) *T { return SendPool(AddrOnly(third(w)), "RewardsPool", OLT(5), "h", w.Users[0]) })
	// STAKE
	add("Stake/xxx-negative", func(w *W) *T { return Stake(w.Vals[3], w.Vals[3].Stake, xxxNeg, "h") })
	add("Stake/olt-negative", func(w *W) *T { return Stake(w.Vals[0], w.Vals[0].Stake, oltNeg, "h") })
	add("Stake/huge", func(w *W) *T { return Stake(w.Vals[0], w.Vals[0].Stake, huge, "h") })
	add("Stake/two-pow-64-plus-600000", func(w *W) *T { // Int64() truncation: pays for 600000, records 2^64+600000
		return Stake(w.Vals[3], w.Vals[3].Stake, Coin("OLT", harness.Amt("18446744073710151616")), "h")
	})
	add("Stake/zero", func(w *W) *T { return Stake(w.Vals[3], w.Vals[3].Stake, WholeOLT(0), "h") })
	add("Stake/stake-address-third-party", func(w *W) *T {
		return StakeRaw(w.Vals[3].Val, AddrOnly(third(w)), w.Vals[3].Val.Pub, w.Vals[3].Ecdsa.Pub, "x", WholeOLT(600000), "h", w.Vals[3].Stake, w.Vals[3].Val)
	})
	add("Stake/existing-validator-foreign-stake-address", func(w *W) *T {
		return Stake(w.Vals[0], w.Users[1], WholeOLT(10), "h")
	})
	add("Stake/empty-pubkeys", func(w *W) *T {
		return StakeRaw(w.Vals[3].Val, w.Vals[3].Stake, keys.PublicKey{}, keys.PublicKey{}, "", WholeOLT(600000), "h")
	})
	add("Stake/pubkey-of-other-validator", func(w *W) *T {
		return StakeRaw(w.Vals[3].Val, w.Vals[3].Stake, w.Vals[0].Val.Pub, w.Vals[0].Ecdsa.Pub, "dup", WholeOLT(600000), "h")
	})
	add("Stake/nil-validator-address", func(w *W) *T {
		return StakeRaw(AddrOnly(nil), w.Vals[3].Stake, w.Vals[3].Val.Pub, w.Vals[3].Ecdsa.Pub, "x", WholeOLT(600000), "h", w.Vals[3].Stake, w.Vals[3].Val)
	})
	// UNSTAKE
	add("Unstake/xxx-negative", func(w *W) *T { return Unstake(w.Vals[0].Val, w.Vals[0].Stake, xxxNeg, "h") })
	add("Unstake/olt-negative", func(w *W) *T { return Unstake(w.Vals[0].Val, w.Vals[0].Stake, oltNeg, "h") })
	add("Unstake/huge", func(w *W) *T { return Unstake(w.Vals[0].Val, w.Vals[0].Stake, huge, "h") })
	add("Unstake/more-than-staked", func(w *W) *T { return Unstake(w.Vals[2].Val, w.Vals[2].Stake, WholeOLT(1000001), "h") })
	add("Unstake/third-party-validator", func(w *W) *T {
		return Unstake(AddrOnly(w.Vals[1].Val.Addr), w.Vals[0].Stake, WholeOLT(10), "h", w.Vals[0].Stake, w.Vals[0].Val)
	})
	add("Unstake/third-party-stake-address", func(w *W) *T {
		return Unstake(w.Vals[0].Val, AddrOnly(w.Vals[1].Stake.Addr), WholeOLT(10), "h", w.Vals[0].Stake, w.Vals[0].Val)
	})
	add("Unstake/unknown-validator", func(w *W) *T { return Unstake(w.Users[0], w.Users[1], WholeOLT(10), "h") })
	// WITHDRAW
	add("Withdraw/xxx-negative", func(w *W) *T { return Withdraw(w.Vals[0].Val, w.Vals[0].Stake, xxxNeg, "h") })
	add("Withdraw/olt-negative", func(w *W) *T { return Withdraw(w.Vals[0].Val, w.Vals[0].Stake, oltNeg, "h") })
	add("Withdraw/huge", func(w *W) *T { return Withdraw(w.Vals[0].Val, w.Vals[0].Stake, huge, "h") })
	add("Withdraw/nothing-matured", func(w *W) *T { return Withdraw(w.Vals[0].Val, w.Vals[0].Stake, WholeOLT(1), "h") })
	add("Withdraw/third-party-stake-address", func(w *W) *T {
		return Withdraw(w.Vals[0].Val, AddrOnly(w.Vals[1].Stake.Addr), WholeOLT(10), "h", w.Vals[0].Stake, w.Vals[0].Val)
	})
	// ADD_NETWORK_DELEGATE
	add("Delegate/xxx-negative", func(w *W) *T { return Delegate(w.Users[0], xxxNeg, "h") })
	add("Delegate/olt-negative", func(w *W) *T { return Delegate(w.Users[0], oltNeg, "h") })
	add("Delegate/huge", func(w *W) *T { return Delegate(w.Users[0], huge, "h") })
	add("Delegate/zero", func(w *W) *T { return Delegate(w.Users[0], OLT(0), "h") })
	add("Delegate/third-party", func(w *W) *T { return Delegate(AddrOnly(third(w)), OLT(5), "h", w.Users[0]) })
	// NETWORK_UNDELEGATE
	add("Undelegate/xxx-negative", func(w *W) *T { return Undelegate(w.Users[0], xxxNeg, "h") })
	add("Undelegate/olt-negative", func(w *W) *T { return Undelegate(w.Users[0], oltNeg, "h") })
	add("Undelegate/huge", func(w *W) *T { return Undelegate(w.Users[0], huge, "h") })
	add("Undelegate/third-party", func(w *W) *T { return Undelegate(AddrOnly(third(w)), OLT(5), "h", w.Users[0]) })
	// REWARDS_WITHDRAW_NETWORK_DELEGATE
	add("DelegWithdrawRewards/xxx-negative", func(w *W) *T { return DelegWithdrawRewards(w.Users[0], xxxNeg, "h") })
	add("DelegWithdrawRewards/olt-negative", func(w *W) *T { return DelegWithdrawRewards(w.Users[0], oltNeg, "h") })
	add("DelegWithdrawRewards/huge", func(w *W) *T { return DelegWithdrawRewards(w.Users[0], huge, "h") })
	add("DelegWithdrawRewards/third-party", func(w *W) *T { return DelegWithdrawRewards(AddrOnly(third(w)), OLT(5), "h", w.Users[0]) })
	// REWARDS_REINVEST_NETWORK_DELEGATE
	add("DelegReinvestRewards/xxx-negative", func(w *W) *T { return DelegReinvestRewards(w.Users[0], xxxNeg, "h") })
	add("DelegReinvestRewards/olt-negative", func(w *W) *T { return DelegReinvestRewards(w.Users[0], oltNeg, "h") })
	add("DelegReinvestRewards/huge", func(w *W) *T { return DelegReinvestRewards(w.Users[0], huge, "h") })
	add("DelegReinvestRewards/third-party", func(w *W) *T { return DelegReinvestRewards(AddrOnly(third(w)), OLT(5), "h", w.Users[0]) })
	// WITHDRAW_REWARD
	add("WithdrawReward/xxx-negative", func(w *W) *T { return WithdrawReward(w.Vals[0].Val.Addr, w.Vals[0].Stake, xxxNeg, "h") })
	add("WithdrawReward/olt-negative", func(w *W) *T { return WithdrawReward(w.Vals[0].Val.Addr, w.Vals[0].Stake, oltNeg, "h") })
	add("WithdrawReward/huge", func(w *W) *T { return WithdrawReward(w.Vals[0].Val.Addr, w.Vals[0].Stake, huge, "h") })
	add("WithdrawReward/third-party-signer", func(w *W) *T { return WithdrawReward(w.Vals[0].Val.Addr, w.Users[0], WholeOLT(1), "h") })
	add("WithdrawReward/unknown-validator", func(w *W) *T { return WithdrawReward(third(w), w.Users[0], WholeOLT(1), "h") })
	add("WithdrawReward/unknown-validator-negative", func(w *W) *T { return WithdrawReward(third(w), w.Users[0], oltNeg, "h") })
	// ALLEGATION
	add("Allegation/reporter-not-validator", func(w *W) *T {
		return Allegation("r1", w.Users[0], w.Vals[2].Val.Addr, 1, "p", "h")
	})
	add("Allegation/reporter-third-party-validator", func(w *W) *T {
		return Allegation("r1", AddrOnly(w.Vals[1].Val.Addr), w.Vals[2].Val.Addr, 1, "p", "h", w.Vals[0].Val)
	})
	add("Allegation/future-height-negative", func(w *W) *T {
		return Allegation("r1", w.Vals[0].Val, w.Vals[2].Val.Addr, -1<<62, "p", "h")
	})
	add("Allegation/malicious-is-user", func(w *W) *T {
		return Allegation("r1", w.Vals[0].Val, third(w), 1, "p", "h")
	})
	add("Allegation/nil-malicious", func(w *W) *T {
		return Allegation("", w.Vals[0].Val, nil, 1, "", "h")
	})
	add("Allegation/signed-by-stake-account", func(w *W) *T {
		return Allegation("r1", w.Vals[0].Val, w.Vals[2].Val.Addr, 1, "p", "h", w.Vals[0].Stake)
	})
	// ALLEGATION_VOTE
	add("AllegationVote/unknown-request", func(w *W) *T { return AllegationVote("nope", w.Vals[0].Val, Yes, "h") })
	add("AllegationVote/choice-out-of-range", func(w *W) *T { return AllegationVote("nope", w.Vals[0].Val, -128, "h") })
	add("AllegationVote/voter-not-validator", func(w *W) *T { return AllegationVote("nope", w.Users[0], Yes, "h") })
	add("AllegationVote/voter-third-party-validator", func(w *W) *T {
		return AllegationVote("nope", AddrOnly(w.Vals[1].Val.Addr), Yes, "h", w.Vals[0].Val)
	})
	// RELEASE
	add("Release/not-frozen", func(w *W) *T { return Release(w.Vals[0].Val, "h") })
	add("Release/not-validator", func(w *W) *T { return Release(w.Users[0], "h") })
	add("Release/third-party-validator", func(w *W) *T { return Release(AddrOnly(w.Vals[1].Val.Addr), "h", w.Vals[0].Val) })
	add("Release/no-signer", func(w *W) *T { t := Release(w.Vals[0].Val, "h"); t.Signers = nil; return t })
	return cs
}

// runHostile executes one hostile transaction in one mode ("check" or "deliver") on a fresh run and
// returns a one-line description of what happened.
func runHostile(hc hostileCase, mode string) string {
	w := harness.NewWorld("stk-hostile", 4, 3)
	x, err := harness.StartRun(w)
	if err != nil {
		return "start: " + err.Error()
	}
	defer x.Close()
	if err := x.Empty(3); err != nil { // validator status records exist from EndBlock(2)
		return "setup: " + err.Error()
	}
	tx := hc.tx(w)
	tx.Memo = "hostile-" + hc.name
	if mode == "check" {
		r := x.R.CheckTx(tx.Bytes())
		return fmt.Sprintf("CheckTx code=%d dead=%v log=%q", r.Code, x.R.Dead, short(r.Log))
	}
	res, err := x.Block(harness.BlockSpec{Txs: []*harness.TxSpec{tx}, NoCheck: true})
	code, log := uint32(0), ""
	if res != nil && len(res.Txs) == 1 {
		code, log = res.Txs[0].Code, res.Txs[0].Log
	}
	changed := "n/a"
	if !x.R.Dead {
		// compare with an empty block at the same height
		y, err2 := harness.StartRun(harness.NewWorld("stk-hostile", 4, 3))
		if err2 == nil {
			if y.Empty(4) == nil {
				changed = fmt.Sprint(harness.DigestOf(y.R.Dump()) != harness.DigestOf(x.R.Dump()))
			}
			y.Close()
		}
	}
	// a few more blocks: does the application survive its own block-level hooks, and would Tendermint
	// accept the validator updates it returns?
	later := "ok"
	for i := 0; i < 4 && err == nil && !x.R.Dead; i++ {
		if _, e := x.Block(harness.BlockSpec{}); e != nil {
			later = fmt.Sprintf("HALT at +%d: %v", i+1, e)
			break
		}
	}
	if x.R.Dead {
		later = "application dead"
	}
	return fmt.Sprintf("DeliverTx code=%d dead=%v halt=%v stateDiffersFromEmptyBlock=%s next4blocks=%s log=%q", code, x.R.Dead, err, changed, later, short(log))
}

var hostileModes = []string{"check", "deliver"}

func selectedHostileCases() []hostileCase {
	only := os.Getenv("STK_ONLY")
	var out []hostileCase
	for _, hc := range hostileCases() {
		if only == "" || strings.Contains(hc.name, only) {
			out = append(out, hc)
		}
	}
	return out
}

// TestConstructorsHostile sends hostile field values through CheckTx and (without CheckTx) through
// DeliverTx and only LOGS what happens. Some inputs make the repository call logger.Fatal (os.Exit),
// which would take the whole test process down; therefore the cases run in a child process (this
// test binary re-executed with STK_HOSTILE_CHILD set) that reports step by step; when the child dies
// the step it was in is recorded as "TEST PROCESS DIED" and a new child resumes with the next step.
// Known process killers at the time of writing (see the final report of this package):
//   - Undelegate/xxx-negative, in CheckTx and in DeliverTx: NETWORK_UNDELEGATE with an unknown currency
//     -> balance.Coin.Minus on a coin without currency -> logger.Fatal("Mismatching currencies").
func TestConstructorsHostile(t *testing.T) {
	if os.Getenv("STK_HOSTILE_CHILD") != "" {
		hostileChild()
		return
	}
	defer harness.RemoveScratch()
	cases := selectedHostileCases()
	total := len(cases) * len(hostileModes)
	results := make([]string, total)
	died := 0
	for next := 0; next < total; {
		// a child killed by os.Exit leaves its replica directories behind: one scratch root per child
		scratch := filepath.Join(harness.ScratchRoot, "hostile-child-"+strconv.Itoa(next))
		cmd := exec.Command(os.Args[0], "-test.run=^TestConstructorsHostile$")
		cmd.Env = append(os.Environ(), "STK_HOSTILE_CHILD=1", "STK_HOSTILE_FROM="+strconv.Itoa(next), "VERIF_SCRATCH="+scratch)
		out, err := cmd.Output()
		os.RemoveAll(scratch)
		begun := -1
		for _, ln := range strings.Split(string(out), "\n") {
			var s int
			if n, _ := fmt.Sscanf(ln, "@@BEGIN %d", &s); n == 1 {
				begun = s
			} else if n, _ := fmt.Sscanf(ln, "@@RESULT %d", &s); n == 1 && s >= 0 && s < total {
				results[s] = strings.SplitN(ln, " ", 3)[2]
				if s == begun {
					begun = -1
				}
				if s >= next {
					next = s + 1
				}
			}
		}
		if begun >= 0 {
			results[begun] = fmt.Sprintf("%s: TEST PROCESS DIED (%v)", hostileModes[begun%len(hostileModes)], err)
			died++
			next = begun + 1
		} else if next < total {
			// the child ended without reporting progress: do not loop forever
			results[next] = fmt.Sprintf("child made no progress (%v): %s", err, short(string(out)))
			next++
		}
	}
	for i, hc := range cases {
		var line []string
		for m := range hostileModes {
			line = append(line, results[i*len(hostileModes)+m])
		}
		t.Logf("%-50s %s", hc.name, strings.Join(line, " | "))
	}
	t.Logf("%d hostile cases, %d steps killed the test process", len(cases), died)
}

func hostileChild() {
	defer quiet()()
	defer harness.RemoveScratch()
	cases := selectedHostileCases()
	from, _ := strconv.Atoi(os.Getenv("STK_HOSTILE_FROM"))
	for s := from; s < len(cases)*len(hostileModes); s++ {
		harness.Outf("@@BEGIN %d\n", s)
		line := runHostile(cases[s/len(hostileModes)], hostileModes[s%len(hostileModes)])
		harness.Outf("@@RESULT %d %s\n", s, strings.ReplaceAll(line, "\n", " "))
	}
}

func short(s string) string {
	if len(s) > 140 {
		return s[:140] + "..."
	}
	return s
}
