package xch

import (
	"hash/fnv"
	"math/big"
	"strconv"

	ethcmn "github.com/ethereum/go-ethereum/common"
	ethtypes "github.com/ethereum/go-ethereum/core/types"
	ethcrypto "github.com/ethereum/go-ethereum/crypto"

	"github.com/Oneledger/protocol/action"
	"github.com/Oneledger/protocol/action/olvm"
	"github.com/Oneledger/protocol/data/balance"
	"github.com/Oneledger/protocol/data/keys"
	"github.com/Oneledger/protocol/utils"

	"verif/harness"
)

// OLVMChainID is the EIP-155 chain id the OLVM handler expects: fnv32a of the chain id string.
func OLVMChainID(w *harness.World) *big.Int { return utils.HashToBigInt(w.ChainID) }

// OLVM builds an OLVM transaction from raw values.
//
//	from     value of the From field (any address)
//	to       nil = contract creation
//	nonce    account nonce claimed by the transaction
//	amount   value transferred (a valid tx uses currency "OLT")
//	data     call data / init code
//	chainID  value of the ChainID field AND chain id of the EIP-155 signature
//	memo     a valid tx has memo == decimal nonce; pass "" to get exactly that
//	signers  default: `signer` alone. The first signer that has an ecdsa key (ETHSECP account) signs the
//	         embedded Ethereum transaction (nonce,to,value,Fee.Gas,Fee.Price,data) the way the handler
//	         recovers it; a signer without ecdsa key falls back to an ordinary signature over the raw
//	         bytes (always rejected by Validate).
//
// Gas limit and gas price of the EVM execution are Fee.Gas / Fee.Price of the returned spec (defaults:
// harness.DefaultGas, minimum price); the signature is recomputed whenever the spec is serialised, so
// they can be changed after construction.
func OLVM(signer *harness.Account, from keys.Address, to *keys.Address, nonce uint64, amount action.Amount, data []byte, chainID *big.Int, memo string, signers ...*harness.Account) *harness.TxSpec {
	if memo == "" {
		memo = strconv.FormatUint(nonce, 10)
	}
	if data == nil {
		data = []byte{} // the only accepted spelling of an empty data field is "" (not null)
	}
	msg := &olvm.Transaction{Nonce: nonce, From: from, To: to, Amount: amount, Data: data, ChainID: chainID}
	sg := orDefault(signers, signer)
	t := harness.NewTx(action.OLVM, msg, memo, sg...)
	t.SignFn = func(raw action.RawTx) []action.Signature {
		var out []action.Signature
		for _, s := range sg {
			out = append(out, olvmSignature(s, msg, raw))
		}
		return out
	}
	// memo is pinned to the nonce: a distinct-but-equivalent transaction differs in its gas limit
	t.Vary = func(c *harness.TxSpec, tag string) {
		h := fnv.New32a()
		h.Write([]byte(tag))
		c.Fee.Gas += 1 + int64(h.Sum32()%997)
	}
	return t
}

func olvmSignature(s *harness.Account, msg *olvm.Transaction, raw action.RawTx) (sig action.Signature) {
	sig.Signer = s.Pub
	if s.Eth == nil {
		sig.Signed = s.Sign(raw.RawBytes())
		return sig
	}
	defer func() {
		if r := recover(); r != nil {
			sig.Signed = make([]byte, 65) // unsignable content (e.g. negative value): garbage signature
		}
	}()
	// sign what the payload SAYS NOW (a spec whose Data was changed after construction - hostile amounts,
	// addresses, code - is to be signed correctly for its new content); a payload that no longer parses is
	// signed as the original message
	if cur := new(olvm.Transaction); cur.Unmarshal(raw.Data) == nil && cur.ChainID != nil {
		msg = cur
	}
	var to *ethcmn.Address
	if msg.To != nil {
		a := ethcmn.BytesToAddress(msg.To.Bytes())
		to = &a
	}
	ethTx := ethtypes.NewTx(&ethtypes.LegacyTx{
		Nonce:    msg.Nonce,
		To:       to,
		Value:    msg.Amount.Value.BigInt(),
		Gas:      uint64(raw.Fee.Gas),
		GasPrice: raw.Fee.Price.Value.BigInt(),
		Data:     msg.Data,
	})
	cid := msg.ChainID
	if cid == nil {
		cid = new(big.Int)
	}
	h := ethtypes.NewEIP155Signer(cid).Hash(ethTx)
	b, err := ethcrypto.Sign(h[:], s.Eth) // R || S || V, V in {0,1}
	if err != nil {
		panic(err)
	}
	sig.Signed = b
	return sig
}

// OLVMSend: plain value transfer (no data) signed by `from`.
func OLVMSend(w *harness.World, from *harness.Account, to keys.Address, nonce uint64, value balance.Amount) *harness.TxSpec {
	return OLVM(from, from.Addr, &to, nonce, harness.Coin("OLT", value), nil, OLVMChainID(w), "")
}

// OLVMCreate: contract creation with init code `code` and endowment `value`.
func OLVMCreate(w *harness.World, from *harness.Account, nonce uint64, value balance.Amount, code []byte) *harness.TxSpec {
	return OLVM(from, from.Addr, nil, nonce, harness.Coin("OLT", value), code, OLVMChainID(w), "")
}

// OLVMCall: message call to contract `to`.
func OLVMCall(w *harness.World, from *harness.Account, to ethcmn.Address, nonce uint64, value balance.Amount, input []byte) *harness.TxSpec {
	a := keys.Address(to.Bytes())
	return OLVM(from, from.Addr, &a, nonce, harness.Coin("OLT", value), input, OLVMChainID(w), "")
}

// ContractAddr is the address of the contract created by `from` when its STATE nonce is `nonce` (the
// EVM derives it from the state nonce, which differs from the transaction nonce after a nonce gap).
func ContractAddr(from *harness.Account, nonce uint64) ethcmn.Address {
	return ethcrypto.CreateAddress(ethcmn.BytesToAddress(from.Addr.Bytes()), nonce)
}

// ---- tiny hand-assembled contracts ------------------------------------------------------------

// StoreRuntime: v := calldata[0:32]; if v == 0 { revert(0,0) }; storage[0] = v; log0(v); stop.
var StoreRuntime = []byte{
	0x60, 0x00, // 00 PUSH1 0
	0x35,       // 02 CALLDATALOAD        v
	0x80,       // 03 DUP1                v v
	0x15,       // 04 ISZERO              v (v==0)
	0x60, 0x15, // 05 PUSH1 0x15
	0x57,       // 07 JUMPI               v
	0x80,       // 08 DUP1                v v
	0x60, 0x00, // 09 PUSH1 0
	0x55,       // 0b SSTORE              v          storage[0]=v
	0x60, 0x00, // 0c PUSH1 0
	0x52,       // 0e MSTORE                         mem[0:32]=v
	0x60, 0x20, // 0f PUSH1 32
	0x60, 0x00, // 11 PUSH1 0
	0xa0,       // 13 LOG0
	0x00,       // 14 STOP
	0x5b,       // 15 JUMPDEST
	0x60, 0x00, // 16 PUSH1 0
	0x60, 0x00, // 18 PUSH1 0
	0xfd, // 1a REVERT
}

// KillRuntime: selfdestruct(caller).
var KillRuntime = []byte{0x33, 0xff}

// SweepRuntime: staticcall the precompiles 2, 3 and 4 with empty input, then selfdestruct in favour of an address
// nobody has ever used. With a contract that holds nothing, ONE transaction ends with five accounts that are
// touched and empty (three precompiles, the contract, the beneficiary): all of them are removed at the end of the
// transaction, all with keys the state tree has not seen before.
var SweepBeneficiary = ethcmn.HexToAddress("0x00000000000000000000000000000000dead0001")

var SweepRuntime = func() []byte {
	var code []byte
	for _, p := range []byte{2, 3, 4} {
		code = append(code, 0x60, 0x00, 0x60, 0x00, 0x60, 0x00, 0x60, 0x00, 0x60, p, 0x5a, 0xfa, 0x50) // staticcall(gas, p, 0,0,0,0); pop
	}
	code = append(code, 0x73)
	code = append(code, SweepBeneficiary.Bytes()...)
	return append(code, 0xff) // selfdestruct(beneficiary)
}()

// InitCode returns init code that sets storage[1] = 42 and deploys `runtime`.
func InitCode(runtime []byte) []byte {
	if len(runtime) > 255 {
		panic("runtime too long for PUSH1")
	}
	n := byte(len(runtime))
	code := []byte{
		0x60, 0x2a, 0x60, 0x01, 0x55, // storage[1] = 42
		0x60, n, 0x60, 0x11, 0x60, 0x00, 0x39, // codecopy(0, 0x11, n)
		0x60, n, 0x60, 0x00, 0xf3, // return(0, n)
	}
	return append(code, runtime...)
}

// Word is a 32-byte big-endian call-data word.
func Word(v int64) []byte { return ethcmn.LeftPadBytes(big.NewInt(v).Bytes(), 32) }
