package xch

import (
	"math/big"

	ethtypes "github.com/ethereum/go-ethereum/core/types"

	"github.com/Oneledger/protocol/action"
	"github.com/Oneledger/protocol/external_apps/bid/bid_data"

	"verif/harness"
)

const bid_data_example = bid_data.BidAssetExample

func newContractCreation() *ethtypes.Transaction {
	return ethtypes.NewContractCreation(0, big.NewInt(1), 300000, big.NewInt(1000000000), []byte{0xf8, 0x3d, 0x08, 0xba})
}

func withFee(t *harness.TxSpec, cur, price string) *harness.TxSpec {
	t.Fee.Price = action.Amount{Currency: cur, Value: harness.Amt(price)}
	return t
}

func withGas(t *harness.TxSpec, gas int64) *harness.TxSpec {
	t.Fee.Gas = gas
	return t
}
