// Package xch is the transaction factory for the cross-chain (Ethereum lock/redeem), OLVM and external
// bid-app transaction kinds. Constructors take raw values and do no validation.
package xch

import (
	"bytes"
	"crypto/ecdsa"
	"math/big"
	"sort"
	"strings"

	"github.com/ethereum/go-ethereum/accounts/abi"
	ethcmn "github.com/ethereum/go-ethereum/common"
	ethtypes "github.com/ethereum/go-ethereum/core/types"
	"github.com/ethereum/go-ethereum/rlp"

	"github.com/Oneledger/protocol/action"
	acteth "github.com/Oneledger/protocol/action/eth"
	ethchain "github.com/Oneledger/protocol/chains/ethereum"
	"github.com/Oneledger/protocol/chains/ethereum/contract"
	"github.com/Oneledger/protocol/data/keys"

	"verif/harness"
)

// EthChainID is the chain id the embedded Ethereum transactions are signed for (nothing on the
// consensus path looks at it).
var EthChainID = big.NewInt(4)

// SupplyAddr is the address whose balance counts the wrapped tokens in circulation.
var SupplyAddr = keys.Address("oneledgerSupplyAddress")

func mustABI(s string) abi.ABI {
	a, err := abi.JSON(strings.NewReader(s))
	if err != nil {
		panic(err)
	}
	return a
}

// SignEthTx signs an Ethereum transaction with an EIP-155 signer and returns its RLP encoding (what the
// lock/redeem handlers expect in ETHTxn).
func SignEthTx(tx *ethtypes.Transaction, key *ecdsa.PrivateKey) []byte {
	signed, err := ethtypes.SignTx(tx, ethtypes.NewEIP155Signer(EthChainID), key)
	if err != nil {
		panic(err)
	}
	var buf bytes.Buffer
	if err := signed.EncodeRLP(&buf); err != nil {
		panic(err)
	}
	return buf.Bytes()
}

// RawEthTx builds and signs an arbitrary legacy Ethereum transaction (hostile variants: wrong `to`,
// wrong selector, huge value...).
func RawEthTx(key *ecdsa.PrivateKey, nonce uint64, to ethcmn.Address, value *big.Int, data []byte) []byte {
	tx := ethtypes.NewTransaction(nonce, to, value, 300000, big.NewInt(1000000000), data)
	return SignEthTx(tx, key)
}

// RawLockTx: `lock()` on the LockRedeem contract carrying `value` wei.
func RawLockTx(key *ecdsa.PrivateKey, nonce uint64, value *big.Int) []byte {
	a := mustABI(contract.LockRedeemABI)
	data, err := a.Pack("lock")
	if err != nil {
		panic(err)
	}
	return RawEthTx(key, nonce, harness.ETHContractAddr, value, data)
}

// RawRedeemTx: `redeem(amount)` on the LockRedeem contract.
func RawRedeemTx(key *ecdsa.PrivateKey, nonce uint64, amount *big.Int) []byte {
	a := mustABI(contract.LockRedeemABI)
	data, err := a.Pack("redeem", amount)
	if err != nil {
		panic(err)
	}
	return RawEthTx(key, nonce, harness.ETHContractAddr, big.NewInt(0), data)
}

// RawERC20LockTx: `transfer(receiver, amount)` on the token contract `token` (a valid lock has
// token == harness.TTCTokenAddr and receiver == harness.ERCContractAddr).
func RawERC20LockTx(key *ecdsa.PrivateKey, nonce uint64, token, receiver ethcmn.Address, amount *big.Int) []byte {
	a := mustABI(contract.ERC20BasicABI)
	data, err := a.Pack("transfer", receiver, amount)
	if err != nil {
		panic(err)
	}
	return RawEthTx(key, nonce, token, big.NewInt(0), data)
}

// RawERC20RedeemTx: `redeem(amount, token)` on the LockRedeemERC contract.
func RawERC20RedeemTx(key *ecdsa.PrivateKey, nonce uint64, token ethcmn.Address, amount *big.Int) []byte {
	return RawERC20RedeemTxTo(key, nonce, harness.ERCContractAddr, token, amount)
}

// RawERC20RedeemTxTo is RawERC20RedeemTx sent to an arbitrary address. ERC20_REDEEM never looks at the
// `to` of the embedded transaction, but the finality report that completes the tracker looks the token
// up by that `to` (burnERC20Tokens) -- so a redeem addressed to the LockRedeemERC contract (the only form
// that makes sense on Ethereum) can never be completed, one addressed to the TOKEN contract can.
func RawERC20RedeemTxTo(key *ecdsa.PrivateKey, nonce uint64, to, token ethcmn.Address, amount *big.Int) []byte {
	a := mustABI(contract.LockRedeemERCABI)
	data, err := a.Pack("redeem", amount, token)
	if err != nil {
		panic(err)
	}
	return RawEthTx(key, nonce, to, big.NewInt(0), data)
}

// DecodeEthTx is the inverse of SignEthTx (panics on malformed input; test helper).
func DecodeEthTx(raw []byte) *ethtypes.Transaction {
	tx := &ethtypes.Transaction{}
	if err := rlp.DecodeBytes(raw, tx); err != nil {
		panic(err)
	}
	return tx
}

// TrackerName is the name the handlers derive from the submitted bytes: the LAST 32 bytes of them
// (left-padded when shorter), not the Ethereum transaction hash.
func TrackerName(rawEthTx []byte) ethchain.TrackerName { return ethcmn.BytesToHash(rawEthTx) }

func orDefault(signers []*harness.Account, def ...*harness.Account) []*harness.Account {
	if len(signers) == 0 {
		return def
	}
	return signers
}

// EthLock builds ETH_LOCK. Required signer: Locker.
func EthLock(locker *harness.Account, rawEthTx []byte, memo string, signers ...*harness.Account) *harness.TxSpec {
	return EthLockAddr(locker.Addr, rawEthTx, memo, orDefault(signers, locker)...)
}

// EthLockAddr is EthLock with an arbitrary Locker address (signers must be given).
func EthLockAddr(locker keys.Address, rawEthTx []byte, memo string, signers ...*harness.Account) *harness.TxSpec {
	return harness.NewTx(action.ETH_LOCK, &acteth.Lock{Locker: locker, ETHTxn: rawEthTx}, memo, signers...)
}

// ERC20Lock builds ERC20_LOCK. Required signer: Locker.
func ERC20Lock(locker *harness.Account, rawEthTx []byte, memo string, signers ...*harness.Account) *harness.TxSpec {
	return ERC20LockAddr(locker.Addr, rawEthTx, memo, orDefault(signers, locker)...)
}

// ERC20LockAddr is ERC20Lock with an arbitrary Locker address.
func ERC20LockAddr(locker keys.Address, rawEthTx []byte, memo string, signers ...*harness.Account) *harness.TxSpec {
	return harness.NewTx(action.ERC20_LOCK, &acteth.ERC20Lock{Locker: locker, ETHTxn: rawEthTx}, memo, signers...)
}

// EthRedeem builds ETH_REDEEM. Required signer: Owner. `to` is the user's Ethereum address.
func EthRedeem(owner *harness.Account, to ethcmn.Address, rawEthTx []byte, memo string, signers ...*harness.Account) *harness.TxSpec {
	return EthRedeemAddr(owner.Addr, to, rawEthTx, memo, orDefault(signers, owner)...)
}

// EthRedeemAddr is EthRedeem with an arbitrary Owner address.
func EthRedeemAddr(owner keys.Address, to ethcmn.Address, rawEthTx []byte, memo string, signers ...*harness.Account) *harness.TxSpec {
	return harness.NewTx(action.ETH_REDEEM, &acteth.Redeem{Owner: owner, To: to, ETHTxn: rawEthTx}, memo, signers...)
}

// ERC20Redeem builds ERC20_REDEEM. Required signer: Owner. (The handler charges NO fee for this kind.)
func ERC20Redeem(owner *harness.Account, to ethcmn.Address, rawEthTx []byte, memo string, signers ...*harness.Account) *harness.TxSpec {
	return ERC20RedeemAddr(owner.Addr, to, rawEthTx, memo, orDefault(signers, owner)...)
}

// ERC20RedeemAddr is ERC20Redeem with an arbitrary Owner address.
func ERC20RedeemAddr(owner keys.Address, to ethcmn.Address, rawEthTx []byte, memo string, signers ...*harness.Account) *harness.TxSpec {
	return harness.NewTx(action.ERC20_REDEEM, &acteth.ERC20Redeem{Owner: owner, To: to, ETHTxn: rawEthTx}, memo, signers...)
}

// ReportFinality builds ETH_REPORT_FINALITY_MINT (normally produced by a witness's check-finality /
// verify-redeem job). Required signer: ValidatorAddress (the witness's validator key). No fee is
// charged. `locker` is the address that receives the minted tokens if this vote completes a lock.
func ReportFinality(witness *harness.Account, tracker ethchain.TrackerName, locker keys.Address, voteIndex int64, success bool, memo string, signers ...*harness.Account) *harness.TxSpec {
	return ReportFinalityAddr(witness.Addr, tracker, locker, voteIndex, success, memo, orDefault(signers, witness)...)
}

// ReportFinalityAddr is ReportFinality with an arbitrary ValidatorAddress.
func ReportFinalityAddr(validator keys.Address, tracker ethchain.TrackerName, locker keys.Address, voteIndex int64, success bool, memo string, signers ...*harness.Account) *harness.TxSpec {
	return harness.NewTx(action.ETH_REPORT_FINALITY_MINT, &acteth.ReportFinality{
		TrackerName:      tracker,
		Locker:           locker,
		ValidatorAddress: validator,
		VoteIndex:        voteIndex,
		Success:          success,
	}, memo, signers...)
}

// Witnesses returns the genesis witnesses of w in the order of a tracker's witness list: the list is
// read by iterating the keys "w_<chain>_<raw address bytes>" in ascending key order, i.e. witnesses are
// sorted by their raw 20-byte validator address.
func Witnesses(w *harness.World) []*harness.ValSpec {
	var out []*harness.ValSpec
	for _, v := range w.Vals {
		if v.Power > 0 && v.Witness {
			out = append(out, v)
		}
	}
	sort.Slice(out, func(i, j int) bool { return bytes.Compare(out[i].Val.Addr, out[j].Val.Addr) < 0 })
	return out
}

// WitnessIndex is the VoteIndex of validator v (-1 if it is not a genesis witness).
func WitnessIndex(w *harness.World, v *harness.ValSpec) int64 {
	for i, x := range Witnesses(w) {
		if x == v {
			return int64(i)
		}
	}
	return -1
}

// Votes builds one finality report per witness in `voters` (indexes into Witnesses(w)), all with the
// same verdict.
func Votes(w *harness.World, tracker ethchain.TrackerName, locker keys.Address, success bool, memoPrefix string, voters ...int) []*harness.TxSpec {
	ws := Witnesses(w)
	var out []*harness.TxSpec
	for _, i := range voters {
		out = append(out, ReportFinality(ws[i].Val, tracker, locker, int64(i), success, memoPrefix+"-"+ws[i].Name))
	}
	return out
}
