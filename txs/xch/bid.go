package xch

import (
	"github.com/Oneledger/protocol/action"
	"github.com/Oneledger/protocol/action/ons"
	"github.com/Oneledger/protocol/data/keys"
	onsdata "github.com/Oneledger/protocol/data/ons"
	"github.com/Oneledger/protocol/external_apps/bid/bid_action"
	"github.com/Oneledger/protocol/external_apps/bid/bid_data"

	"verif/harness"
)

// The external bid application registers six kinds on the PUBLIC router (external_apps.RegisterExtApp
// is called from newContext): BID_CREATE 0x901, BID_CONTER_OFFER 0x902 (sic), BID_CANCEL 0x903,
// BID_BIDDER_DECISION 0x904, BID_EXPIRE 0x905, BID_OWNER_DECISION 0x906.

// Account-typed parameters name the account whose ADDRESS goes into the message and who signs by
// default; to put an arbitrary address there use AddrOnly(addr) and pass the signers explicitly.

// AddrOnly wraps a bare address (no keys) for use in account-typed constructor parameters.
func AddrOnly(a keys.Address) *harness.Account { return &harness.Account{Name: "addr-only", Addr: a} }

// BidConvID is the conversation id the application derives when a BID_CREATE without id is DELIVERED in
// a block of the given height: hex(sha256(owner.String() + assetName + bidder.String() + height)).
func BidConvID(owner keys.Address, assetName string, assetType bid_data.BidAssetType, bidder keys.Address, height int64) bid_data.BidConvId {
	return bid_data.NewBidConv(owner, assetName, assetType, bidder, 0, height).BidConvId
}

// BidCreate builds BID_CREATE. With an empty convID it opens a conversation (all fields used); with a
// convID it adds a new offer of the bidder to an existing conversation (only convID, bidder, amount are
// used). Required signer: Bidder. `deadline` is a UTC unix time in seconds.
func BidCreate(convID bid_data.BidConvId, assetOwner keys.Address, assetName string, assetType bid_data.BidAssetType, bidder *harness.Account, amount action.Amount, deadline int64, memo string, signers ...*harness.Account) *harness.TxSpec {
	return harness.NewTx(bid_action.BID_CREATE, &bid_action.CreateBid{
		BidConvId:  convID,
		AssetOwner: assetOwner,
		AssetName:  assetName,
		AssetType:  assetType,
		Bidder:     bidder.Addr,
		Amount:     amount,
		Deadline:   deadline,
	}, memo, orDefault(signers, bidder)...)
}

// BidCounterOffer builds BID_CONTER_OFFER. Required signer: AssetOwner.
func BidCounterOffer(convID bid_data.BidConvId, assetOwner *harness.Account, amount action.Amount, memo string, signers ...*harness.Account) *harness.TxSpec {
	return harness.NewTx(bid_action.BID_CONTER_OFFER, &bid_action.CounterOffer{
		BidConvId:  convID,
		AssetOwner: assetOwner.Addr,
		Amount:     amount,
	}, memo, orDefault(signers, assetOwner)...)
}

// BidCancel builds BID_CANCEL. Required signer: Bidder.
func BidCancel(convID bid_data.BidConvId, bidder *harness.Account, memo string, signers ...*harness.Account) *harness.TxSpec {
	return harness.NewTx(bid_action.BID_CANCEL, &bid_action.CancelBid{BidConvId: convID, Bidder: bidder.Addr}, memo, orDefault(signers, bidder)...)
}

// BidBidderDecision builds BID_BIDDER_DECISION (answer to the owner's counter offer). Required signer:
// Bidder. decision: bid_data.AcceptBid (1) / bid_data.RejectBid (2).
func BidBidderDecision(convID bid_data.BidConvId, bidder *harness.Account, decision bid_data.BidDecision, memo string, signers ...*harness.Account) *harness.TxSpec {
	return harness.NewTx(bid_action.BID_BIDDER_DECISION, &bid_action.BidderDecision{BidConvId: convID, Bidder: bidder.Addr, Decision: decision}, memo, orDefault(signers, bidder)...)
}

// BidOwnerDecision builds BID_OWNER_DECISION (answer to the bidder's offer). Required signer: Owner.
func BidOwnerDecision(convID bid_data.BidConvId, owner *harness.Account, decision bid_data.BidDecision, memo string, signers ...*harness.Account) *harness.TxSpec {
	return harness.NewTx(bid_action.BID_OWNER_DECISION, &bid_action.OwnerDecision{BidConvId: convID, Owner: owner.Addr, Decision: decision}, memo, orDefault(signers, owner)...)
}

// BidExpire builds BID_EXPIRE. Required signer: ValidatorAddress -- but the handler never checks that
// the address is a validator nor that the deadline has passed, so any account can sign.
func BidExpire(convID bid_data.BidConvId, validator *harness.Account, memo string, signers ...*harness.Account) *harness.TxSpec {
	return harness.NewTx(bid_action.BID_EXPIRE, &bid_action.ExpireBid{BidConvId: convID, ValidatorAddress: validator.Addr}, memo, orDefault(signers, validator)...)
}

// DomainCreate builds the ONS DOMAIN_CREATE needed to give a bid conversation a domain asset.
func DomainCreate(owner *harness.Account, name string, price action.Amount, memo string) *harness.TxSpec {
	return harness.NewTx(action.DOMAIN_CREATE, &ons.DomainCreate{
		Owner:       owner.Addr,
		Beneficiary: owner.Addr,
		Name:        onsdata.GetNameFromString(name),
		BuyingPrice: price,
	}, memo, owner)
}
