package xch

import (
	"math/big"

	ethcmn "github.com/ethereum/go-ethereum/common"

	"github.com/Oneledger/protocol/action"
	"github.com/Oneledger/protocol/chains/ethereum/contract"
	"github.com/Oneledger/protocol/consensus"
	"github.com/Oneledger/protocol/data/balance"
	"github.com/Oneledger/protocol/external_apps/bid/bid_action"
	"github.com/Oneledger/protocol/external_apps/bid/bid_data"

	"verif/harness"
)

// Entry is a scenario plus what the test expects to see in the committed state.
type Entry struct {
	*harness.Scenario
	// Changed: key prefixes of which at least one key must be added/changed/removed by the target's
	// block (compared with the state before that block).
	Changed []string
	// FinalHas / FinalLacks: key prefixes that must (not) occur in the state after the After blocks.
	FinalHas   []string
	FinalLacks []string
}

// Scenarios returns the history catalogue of this group.
func Scenarios() []*harness.Scenario {
	var out []*harness.Scenario
	for _, e := range Catalogue() {
		out = append(out, e.Scenario)
	}
	return out
}

// Catalogue returns the scenarios with their expectations.
func Catalogue() []Entry {
	var out []Entry
	out = append(out, ethEntries()...)
	out = append(out, olvmEntries()...)
	out = append(out, bidEntries()...)
	return out
}

// ---- worlds -----------------------------------------------------------------------------------

const (
	genesisETH = "5000000000000000000" // what NewWorld gives every account
	genesisTTC = "7000000000000000000"
)

func mulAmt(s string, n int64) balance.Amount {
	v, _ := new(big.Int).SetString(s, 10)
	return *balance.NewAmountFromBigInt(v.Mul(v, big.NewInt(n)))
}

// EthWorld is harness.NewWorld plus what the cross-chain handlers need: the test token's ABI and cap in
// the token list (the ERC20 handlers read them from there), TTC balances, and a supply-address balance
// equal to the wrapped tokens handed out at genesis (a redeem debits the supply address as well).
func EthWorld(name string, nVals, nGenesis int) *harness.World {
	w := harness.NewWorld(name, nVals, nGenesis)
	w.UserBalance["TTC"] = genesisTTC
	tl := w.Gov.ETHCDOption.TokenList
	tl[0].TokAbi = contract.ERC20BasicABI
	tl[0].TokTotalSupply = "1000000000000000000000"
	n := int64(len(w.Users) + len(w.EthUsers) + len(w.Vals))
	w.PoolBalances = append(w.PoolBalances,
		consensus.BalanceState{Address: SupplyAddr, Currency: "ETH", Amount: mulAmt(genesisETH, n)},
		consensus.BalanceState{Address: SupplyAddr, Currency: "TTC", Amount: mulAmt(genesisTTC, n)},
	)
	return w
}

func ethWorld(name string) func() *harness.World {
	return func() *harness.World { return EthWorld(name, 4, 3) }
}

// ---- helpers ----------------------------------------------------------------------------------

func blk(txs ...*harness.TxSpec) harness.BlockSpec { return harness.BlockSpec{Txs: txs} }

func eth(n int64) *big.Int { return new(big.Int).Mul(big.NewInt(n), big.NewInt(1000000000000000000)) }

func olt(n int64) action.Amount { return harness.Coin("OLT", harness.OLTUnits(n)) }

// the embedded Ethereum transactions of the scenarios (deterministic: fixed key, nonce, amounts)
func lockRaw(w *harness.World) []byte   { return RawLockTx(w.EthUsers[0].Eth, 0, eth(1)) }
func redeemRaw(w *harness.World) []byte { return RawRedeemTx(w.EthUsers[0].Eth, 1, eth(2)) }
func ercLockRaw(w *harness.World) []byte {
	return RawERC20LockTx(w.EthUsers[0].Eth, 2, harness.TTCTokenAddr, harness.ERCContractAddr, eth(3))
}
func ercRedeemRaw(w *harness.World) []byte {
	return RawERC20RedeemTx(w.EthUsers[0].Eth, 3, harness.TTCTokenAddr, eth(4))
}

// ercRedeemRawToToken: the same call addressed to the token contract (see RawERC20RedeemTxTo).
func ercRedeemRawToToken(w *harness.World) []byte {
	return RawERC20RedeemTxTo(w.EthUsers[0].Eth, 3, harness.TTCTokenAddr, harness.TTCTokenAddr, eth(4))
}

func ethAddrOf(a *harness.Account) ethcmn.Address { return ethcmn.BytesToAddress(a.Addr.Bytes()) }

// the user-side submission of each process type (user A = w.Users[0])
func submit(kind string, w *harness.World, memo string) *harness.TxSpec {
	A := w.Users[0]
	switch kind {
	case "lock":
		return EthLock(A, lockRaw(w), memo)
	case "redeem":
		return EthRedeem(A, ethAddrOf(w.EthUsers[0]), redeemRaw(w), memo)
	case "erc20lock":
		return ERC20Lock(A, ercLockRaw(w), memo)
	case "erc20redeem":
		return ERC20Redeem(A, ethAddrOf(w.EthUsers[0]), ercRedeemRaw(w), memo)
	case "erc20redeem-to-token":
		return ERC20Redeem(A, ethAddrOf(w.EthUsers[0]), ercRedeemRawToToken(w), memo)
	}
	panic(kind)
}

func rawOf(kind string, w *harness.World) []byte {
	switch kind {
	case "lock":
		return lockRaw(w)
	case "redeem":
		return redeemRaw(w)
	case "erc20lock":
		return ercLockRaw(w)
	case "erc20redeem":
		return ercRedeemRaw(w)
	case "erc20redeem-to-token":
		return ercRedeemRawToToken(w)
	}
	panic(kind)
}

// voteScenario: <kind> submitted at height 2, one idle block (tracker New -> BusyBroadcasting at the end
// of block 3), then the votes `before` in block 4 and the target vote in block 5.
func voteScenario(note, kind string, world func() *harness.World, before []int, beforeYes bool, last int, lastYes bool, after int, e Entry) Entry {
	e.Scenario = &harness.Scenario{
		Kind:  action.ETH_REPORT_FINALITY_MINT.String(),
		Note:  note,
		World: world,
		Prefix: func(w *harness.World) []harness.BlockSpec {
			name := TrackerName(rawOf(kind, w))
			return []harness.BlockSpec{
				blk(),
				blk(submit(kind, w, "submit")),
				blk(),
				blk(Votes(w, name, w.Users[0].Addr, beforeYes, "pv", before...)...),
			}
		},
		Target: func(w *harness.World) *harness.TxSpec {
			name := TrackerName(rawOf(kind, w))
			return Votes(w, name, w.Users[0].Addr, lastYes, "tv", last)[0]
		},
		After: after,
	}
	return e
}

func submitScenario(kindName, note, kind string, world func() *harness.World, after int, e Entry) Entry {
	e.Scenario = &harness.Scenario{
		Kind:   kindName,
		Note:   note,
		World:  world,
		Prefix: func(w *harness.World) []harness.BlockSpec { return []harness.BlockSpec{blk()} },
		Target: func(w *harness.World) *harness.TxSpec { return submit(kind, w, "submit") },
		After:  after,
	}
	return e
}

// ---- cross-chain ------------------------------------------------------------------------------

func ethEntries() []Entry {
	rep := action.ETH_REPORT_FINALITY_MINT.String()
	var out []Entry

	// submissions: the tracker is created in state New; it is picked up by the block-end driver one
	// block LATER (the driver iterates committed keys only) and moves to BusyBroadcasting.
	out = append(out,
		submitScenario(action.ETH_LOCK.String(), "lock-submitted", "lock", ethWorld("lock-submitted"), 2,
			Entry{Changed: []string{"etht_"}, FinalHas: []string{"etht_"}}),
		submitScenario(action.ETH_REDEEM.String(), "redeem-submitted", "redeem", ethWorld("redeem-submitted"), 2,
			Entry{Changed: []string{"etht_", "b_"}, FinalHas: []string{"etht_"}}),
		submitScenario(action.ERC20_LOCK.String(), "erc20-lock-submitted", "erc20lock", ethWorld("erc20-lock-submitted"), 2,
			Entry{Changed: []string{"etht_"}, FinalHas: []string{"etht_"}}),
		submitScenario(action.ERC20_REDEEM.String(), "erc20-redeem-submitted", "erc20redeem", ethWorld("erc20-redeem-submitted"), 2,
			Entry{Changed: []string{"etht_", "b_"}, FinalHas: []string{"etht_"}}),
	)

	// finality reports, 3 witnesses (threshold 3)
	out = append(out,
		voteScenario("lock-first-yes-vote-busyfinalizing", "lock", ethWorld("lock-vote1"), nil, true, 0, true, 1,
			Entry{Changed: []string{"etht_"}, FinalHas: []string{"etht_"}}),
		voteScenario("lock-third-yes-vote-mints-and-cleans-up", "lock", ethWorld("lock-minted"), []int{0, 1}, true, 2, true, 2,
			Entry{Changed: []string{"ethsuccess_", "b_"}, FinalHas: []string{"ethsuccess_"}, FinalLacks: []string{"etht_", "ethfailed_"}}),
		voteScenario("lock-third-no-vote-fails", "lock", ethWorld("lock-failed"), []int{0, 1}, false, 2, false, 2,
			Entry{Changed: []string{"ethfailed_"}, FinalHas: []string{"ethfailed_"}, FinalLacks: []string{"etht_", "ethsuccess_"}}),
		voteScenario("lock-split-vote-2yes-1no-stuck", "lock", ethWorld("lock-split"), []int{0, 1}, true, 2, false, 3,
			Entry{Changed: []string{"etht_"}, FinalHas: []string{"etht_"}, FinalLacks: []string{"ethfailed_", "ethsuccess_"}}),
		voteScenario("redeem-third-yes-vote-released", "redeem", ethWorld("redeem-released"), []int{0, 1}, true, 2, true, 2,
			Entry{Changed: []string{"ethsuccess_"}, FinalHas: []string{"ethsuccess_"}, FinalLacks: []string{"etht_"}}),
		voteScenario("redeem-third-no-vote-refunds", "redeem", ethWorld("redeem-refund"), []int{0, 1}, false, 2, false, 2,
			Entry{Changed: []string{"ethfailed_", "b_"}, FinalHas: []string{"ethfailed_"}, FinalLacks: []string{"etht_"}}),
		voteScenario("erc20-lock-third-yes-vote-mints", "erc20lock", ethWorld("erc20-lock-minted"), []int{0, 1}, true, 2, true, 2,
			Entry{Changed: []string{"ethsuccess_", "b_"}, FinalHas: []string{"ethsuccess_"}, FinalLacks: []string{"etht_"}}),
		// only completable when the embedded redeem call is addressed to the token contract itself
		voteScenario("erc20-redeem-addressed-to-token-third-yes-vote-released", "erc20redeem-to-token", ethWorld("erc20-redeem-released"), []int{0, 1}, true, 2, true, 2,
			Entry{Changed: []string{"ethsuccess_"}, FinalHas: []string{"ethsuccess_"}, FinalLacks: []string{"etht_"}}),
	)

	// other witness-set sizes
	out = append(out,
		voteScenario("lock-4-witnesses-third-yes-vote-mints", "lock",
			func() *harness.World { return EthWorld("lock-4w", 4, 4) }, []int{0, 1}, true, 3, true, 2,
			Entry{Changed: []string{"ethsuccess_", "b_"}, FinalHas: []string{"ethsuccess_"}, FinalLacks: []string{"etht_"}}),
		voteScenario("lock-1-witness-single-yes-vote-mints", "lock",
			func() *harness.World { return EthWorld("lock-1w", 4, 1) }, nil, true, 0, true, 2,
			Entry{Changed: []string{"ethsuccess_", "b_"}, FinalHas: []string{"ethsuccess_"}, FinalLacks: []string{"etht_"}}),
		// the replica (validator 0) is NOT a witness: no jobs are created on it; 2 witnesses, threshold 2
		voteScenario("lock-node-not-witness-second-yes-vote-mints", "lock",
			func() *harness.World { w := EthWorld("lock-nw", 4, 3); w.Vals[0].Witness = false; return w }, []int{0}, true, 1, true, 2,
			Entry{Changed: []string{"ethsuccess_", "b_"}, FinalHas: []string{"ethsuccess_"}, FinalLacks: []string{"etht_"}}),
	)

	// the completing report decides who receives the minted tokens: its Locker field, not the tracker's
	// process owner
	out = append(out, Entry{
		Scenario: &harness.Scenario{
			Kind:  rep,
			Note:  "lock-third-yes-vote-mints-to-the-reports-locker",
			World: ethWorld("lock-mint-third-party"),
			Prefix: func(w *harness.World) []harness.BlockSpec {
				name := TrackerName(lockRaw(w))
				return []harness.BlockSpec{blk(), blk(submit("lock", w, "submit")), blk(),
					blk(Votes(w, name, w.Users[0].Addr, true, "pv", 0, 1)...)}
			},
			Target: func(w *harness.World) *harness.TxSpec {
				return Votes(w, TrackerName(lockRaw(w)), w.Users[2].Addr, true, "tv", 2)[0]
			},
			After: 1,
		},
		Changed: []string{"ethsuccess_"}, FinalHas: []string{"ethsuccess_"},
	})

	// a failed lock may be submitted again: the failed record is deleted and a new tracker starts
	out = append(out, Entry{
		Scenario: &harness.Scenario{
			Kind:  action.ETH_LOCK.String(),
			Note:  "relock-after-failed",
			World: ethWorld("relock"),
			Prefix: func(w *harness.World) []harness.BlockSpec {
				name := TrackerName(lockRaw(w))
				return []harness.BlockSpec{blk(), blk(submit("lock", w, "submit")), blk(),
					blk(Votes(w, name, w.Users[0].Addr, false, "pv", 0, 1, 2)...), blk()}
			},
			Target: func(w *harness.World) *harness.TxSpec { return submit("lock", w, "submit-again") },
			After:  2,
		},
		Changed: []string{"etht_", "ethfailed_"}, FinalHas: []string{"etht_"}, FinalLacks: []string{"ethfailed_"},
	})
	return out
}

// ---- OLVM -------------------------------------------------------------------------------------

func olvmScenario(note string, prefix func(w *harness.World) []*harness.TxSpec, target func(w *harness.World) *harness.TxSpec, e Entry) Entry {
	e.Scenario = &harness.Scenario{
		Kind:  action.OLVM.String(),
		Note:  note,
		World: func() *harness.World { return harness.NewWorld("olvm-"+note, 4, 3) },
		Prefix: func(w *harness.World) []harness.BlockSpec {
			out := []harness.BlockSpec{blk()}
			if prefix != nil {
				for _, t := range prefix(w) {
					out = append(out, blk(t))
				}
			}
			return out
		},
		Target: target,
		After:  1,
	}
	return e
}

func olvmEntries() []Entry {
	zero := harness.Amt("0")
	createStore := func(w *harness.World) []*harness.TxSpec {
		return []*harness.TxSpec{OLVMCreate(w, w.EthUsers[0], 0, zero, InitCode(StoreRuntime))}
	}
	store := func(w *harness.World) ethcmn.Address { return ContractAddr(w.EthUsers[0], 0) }
	return []Entry{
		olvmScenario("send-to-eoa", nil, func(w *harness.World) *harness.TxSpec {
			return OLVMSend(w, w.EthUsers[0], w.EthUsers[1].Addr, 0, harness.OLTUnits(3))
		}, Entry{Changed: []string{"b_", "keeper_"}}),
		olvmScenario("send-to-ed25519-user", nil, func(w *harness.World) *harness.TxSpec {
			return OLVMSend(w, w.EthUsers[0], w.Users[1].Addr, 0, harness.OLTUnits(3))
		}, Entry{Changed: []string{"b_", "keeper_"}}),
		olvmScenario("nonce-gap", nil, func(w *harness.World) *harness.TxSpec {
			return OLVMSend(w, w.EthUsers[0], w.EthUsers[1].Addr, 5, harness.OLTUnits(1))
		}, Entry{Changed: []string{"b_", "keeper_"}}),
		olvmScenario("create-contract", nil, func(w *harness.World) *harness.TxSpec {
			return OLVMCreate(w, w.EthUsers[0], 0, zero, InitCode(StoreRuntime))
		}, Entry{Changed: []string{"contracts_"}, FinalHas: []string{"contracts_\x01", "contracts_\x02"}}),
		olvmScenario("create-contract-with-endowment", nil, func(w *harness.World) *harness.TxSpec {
			return OLVMCreate(w, w.EthUsers[0], 0, harness.OLTUnits(2), InitCode(StoreRuntime))
		}, Entry{Changed: []string{"contracts_"}, FinalHas: []string{"contracts_\x01", "contracts_\x02"}}),
		olvmScenario("call-success-sstore-log", createStore, func(w *harness.World) *harness.TxSpec {
			return OLVMCall(w, w.EthUsers[0], store(w), 1, zero, Word(7))
		}, Entry{Changed: []string{"contracts_\x02"}}),
		// a REVERT and an out-of-gas are code-0 transactions: nonce bumped, gas charged, no other effect
		olvmScenario("call-revert", createStore, func(w *harness.World) *harness.TxSpec {
			return OLVMCall(w, w.EthUsers[0], store(w), 1, zero, Word(0))
		}, Entry{Changed: []string{"keeper_"}}),
		olvmScenario("call-out-of-gas", createStore, func(w *harness.World) *harness.TxSpec {
			t := OLVMCall(w, w.EthUsers[0], store(w), 1, zero, Word(9))
			t.Fee.Gas = 22000 // intrinsic 21140; SSTORE needs more than the 2300 stipend
			return t
		}, Entry{Changed: []string{"keeper_"}}),
		olvmScenario("selfdestruct", func(w *harness.World) []*harness.TxSpec {
			return []*harness.TxSpec{OLVMCreate(w, w.EthUsers[1], 0, harness.OLTUnits(2), InitCode(KillRuntime))}
		}, func(w *harness.World) *harness.TxSpec {
			return OLVMCall(w, w.EthUsers[0], ContractAddr(w.EthUsers[1], 0), 0, zero, nil)
		}, Entry{Changed: []string{"keeper_"}}),
		// one transaction at whose end SEVERAL accounts are removed, all with keys new to the state tree (the
		// order of those removals is an order of insertions into the tree). (Added after a seeded change - the
		// removals of a transaction collected in a map and carried out in its iteration order - escaped the
		// replica-determinism check: no history removed more than one account per transaction.)
		olvmScenario("call-touches-precompiles-and-selfdestructs-to-an-unused-address", func(w *harness.World) []*harness.TxSpec {
			return []*harness.TxSpec{OLVMCreate(w, w.EthUsers[0], 0, zero, InitCode(SweepRuntime))}
		}, func(w *harness.World) *harness.TxSpec {
			t := OLVMCall(w, w.EthUsers[0], ContractAddr(w.EthUsers[0], 0), 1, zero, nil)
			t.Fee.Gas = 300000
			return t
		}, Entry{Changed: []string{"keeper_"}}),
	}
}

// ---- bid app ----------------------------------------------------------------------------------

const bidDomain = "alice.ol"

// bidDeadline: far enough for every scripted conversation (block time = genesis + 17 s * height)
func bidDeadline(w *harness.World, blocks int64) int64 { return w.GenesisTime.Unix() + 17*blocks }

// bidOpen: block 1 empty, block 2 A buys the domain, block 3 idle (the domain must be one block old
// before it can change hands), block 4 B opens a conversation on it with a 20 OLT offer.
func bidOpen(w *harness.World, deadlineBlocks int64) ([]harness.BlockSpec, bid_data.BidConvId) {
	A, B := w.Users[0], w.Users[1]
	bs := []harness.BlockSpec{
		blk(),
		blk(DomainCreate(A, bidDomain, olt(110), "domain")),
		blk(),
		blk(BidCreate("", A.Addr, bidDomain, bid_data.BidAssetOns, B, olt(20), bidDeadline(w, deadlineBlocks), "bid")),
	}
	return bs, BidConvID(A.Addr, bidDomain, bid_data.BidAssetOns, B.Addr, 4)
}

func bidScenario(kind action.Type, note string, more func(w *harness.World, id bid_data.BidConvId) []*harness.TxSpec, target func(w *harness.World, id bid_data.BidConvId) *harness.TxSpec, after int, e Entry) Entry {
	e.Scenario = &harness.Scenario{
		Kind:  kind.String(),
		Note:  note,
		World: func() *harness.World { return harness.NewWorld("bid-"+note, 4, 3) },
		Prefix: func(w *harness.World) []harness.BlockSpec {
			bs, id := bidOpen(w, 40)
			if more != nil {
				for _, t := range more(w, id) {
					bs = append(bs, blk(t))
				}
			}
			return bs
		},
		Target: func(w *harness.World) *harness.TxSpec {
			_, id := bidOpen(w, 40)
			return target(w, id)
		},
		After: after,
	}
	return e
}

func bidEntries() []Entry {
	counter := func(w *harness.World, id bid_data.BidConvId) []*harness.TxSpec {
		return []*harness.TxSpec{BidCounterOffer(id, w.Users[0], olt(30), "counter")}
	}
	out := []Entry{
		{
			Scenario: &harness.Scenario{
				Kind:  bid_action.BID_CREATE.String(),
				Note:  "open-conversation-on-domain",
				World: func() *harness.World { return harness.NewWorld("bid-open", 4, 3) },
				Prefix: func(w *harness.World) []harness.BlockSpec {
					bs, _ := bidOpen(w, 40)
					return bs[:3]
				},
				Target: func(w *harness.World) *harness.TxSpec {
					bs, _ := bidOpen(w, 40)
					return bs[3].Txs[0]
				},
				After: 1,
			},
			Changed: []string{"extBidConvActive", "extBidOffer_ACTIVE"}, FinalHas: []string{"extBidConvActive"},
		},
		{
			Scenario: &harness.Scenario{
				Kind:   bid_action.BID_CREATE.String(),
				Note:   "open-conversation-on-example-asset",
				World:  func() *harness.World { return harness.NewWorld("bid-open-example", 4, 3) },
				Prefix: func(w *harness.World) []harness.BlockSpec { return []harness.BlockSpec{blk()} },
				Target: func(w *harness.World) *harness.TxSpec {
					return BidCreate("", w.Users[0].Addr, "thing", bid_data.BidAssetExample, w.Users[2], olt(5), bidDeadline(w, 40), "bid")
				},
				After: 1,
			},
			Changed: []string{"extBidConvActive"}, FinalHas: []string{"extBidConvActive"},
		},
		{
			// the deadline passes: BeginBlock queues an internal BID_EXPIRE, EndBlock of the same block
			// executes it (offer unlocked, conversation moved to the expired store)
			Scenario: &harness.Scenario{
				Kind:  bid_action.BID_CREATE.String(),
				Note:  "open-conversation-then-deadline-passes",
				World: func() *harness.World { return harness.NewWorld("bid-expires", 4, 3) },
				Prefix: func(w *harness.World) []harness.BlockSpec {
					bs, _ := bidOpen(w, 6)
					return bs[:3]
				},
				Target: func(w *harness.World) *harness.TxSpec {
					bs, _ := bidOpen(w, 6)
					return bs[3].Txs[0]
				},
				After: 4,
			},
			Changed: []string{"extBidConvActive"}, FinalHas: []string{"extBidConvExpired"}, FinalLacks: []string{"extBidConvActive", "extBidOffer_ACTIVE"},
		},
		{
			// TWO conversations (bidders B and C on one domain) with the same deadline: it passes for both in
			// the same block, so the expiry hooks of BeginBlock/EndBlock handle two records in one pass. (Added
			// after a seeded change - the tx session of the expiry loop hoisted out of the loop - escaped the
			// one-conversation histories.)
			Scenario: &harness.Scenario{
				Kind:  bid_action.BID_CREATE.String(),
				Note:  "multi-two-conversations-expire-in-one-block",
				World: func() *harness.World { return harness.NewWorld("bid-expires2", 4, 3) },
				Prefix: func(w *harness.World) []harness.BlockSpec {
					bs, _ := bidOpen(w, 7)
					return bs
				},
				Target: func(w *harness.World) *harness.TxSpec {
					return BidCreate("", w.Users[0].Addr, bidDomain, bid_data.BidAssetOns, w.Users[2], olt(25), bidDeadline(w, 7), "bid2")
				},
				After: 5,
			},
			Changed: []string{"extBidConvActive"}, FinalHas: []string{"extBidConvExpired"}, FinalLacks: []string{"extBidConvActive", "extBidOffer_ACTIVE"},
		},
		{
			// a long-lived conversation (bidder B) and a short-lived one (bidder C) on one domain; the short one
			// expires through the block hooks, later B cancels the long one. Every gap of this history is a state in
			// which a closing bid transaction is VALID while another conversation's deadline is about to pass: the
			// expiry hooks iterate the shared conversation store "wherever it points". (Added after a seeded
			// change - CloseBidConv leaving the shared store on the closed-state prefix - was not seen by the
			// mempool-isolation check: no history had a closing transaction that was valid before an expiry.)
			Scenario: &harness.Scenario{
				Kind:  bid_action.BID_CANCEL.String(),
				Note:  "multi-cancel-one-conversation-after-another-one-expired",
				World: func() *harness.World { return harness.NewWorld("bid-cancel-after-expiry", 4, 3) },
				Prefix: func(w *harness.World) []harness.BlockSpec {
					bs, _ := bidOpen(w, 40)
					bs = append(bs, blk(BidCreate("", w.Users[0].Addr, bidDomain, bid_data.BidAssetOns, w.Users[2], olt(25), bidDeadline(w, 7), "bid2")))
					return append(bs, blk(), blk(), blk(), blk())
				},
				Target: func(w *harness.World) *harness.TxSpec {
					_, id := bidOpen(w, 40)
					return BidCancel(id, w.Users[1], "cancel")
				},
				After: 2,
			},
			Changed: []string{"extBidConvCancelled"}, FinalHas: []string{"extBidConvCancelled", "extBidConvExpired"}, FinalLacks: []string{"extBidConvActive"},
		},
		{
			// the mirror image: the long-lived conversation is cancelled one block BEFORE the short-lived one's
			// deadline passes, so the closing transaction is the last bid handler that ran before the expiry hooks
			// meet a due conversation. With this history the failure-atomicity check has a closing transaction to
			// replace by a late-failing copy (modes instead/*) right in front of an expiry. (Added after a seeded
			// change - the same reordering in CloseBidConv, now met through a closing transaction whose fee step
			// FAILS: the session is rolled back, the store's prefix cursor is not - escaped that check.)
			Scenario: &harness.Scenario{
				Kind:  bid_action.BID_CANCEL.String(),
				Note:  "multi-cancel-one-conversation-right-before-another-one-expires",
				World: func() *harness.World { return harness.NewWorld("bid-cancel-before-expiry", 4, 3) },
				Prefix: func(w *harness.World) []harness.BlockSpec {
					bs, _ := bidOpen(w, 40)
					return append(bs, blk(BidCreate("", w.Users[0].Addr, bidDomain, bid_data.BidAssetOns, w.Users[2], olt(25), bidDeadline(w, 7), "bid2")))
				},
				Target: func(w *harness.World) *harness.TxSpec {
					_, id := bidOpen(w, 40)
					return BidCancel(id, w.Users[1], "cancel")
				},
				After: 5,
			},
			Changed: []string{"extBidConvCancelled"}, FinalHas: []string{"extBidConvCancelled", "extBidConvExpired"}, FinalLacks: []string{"extBidConvActive"},
		},
		bidScenario(bid_action.BID_CONTER_OFFER, "counter-offer", nil, func(w *harness.World, id bid_data.BidConvId) *harness.TxSpec {
			return BidCounterOffer(id, w.Users[0], olt(30), "counter")
		}, 1, Entry{Changed: []string{"extBidOffer_ACTIVE", "extBidOffer_INACTIVE"}}),
		bidScenario(bid_action.BID_CREATE, "new-offer-after-counter-offer", counter, func(w *harness.World, id bid_data.BidConvId) *harness.TxSpec {
			return BidCreate(id, nil, "", 0, w.Users[1], olt(25), 0, "bid-again")
		}, 1, Entry{Changed: []string{"extBidOffer_ACTIVE", "extBidOffer_INACTIVE"}}),
		bidScenario(bid_action.BID_BIDDER_DECISION, "bidder-accepts-counter-offer-domain-changes-hands", counter, func(w *harness.World, id bid_data.BidConvId) *harness.TxSpec {
			return BidBidderDecision(id, w.Users[1], bid_data.AcceptBid, "accept")
		}, 1, Entry{Changed: []string{"extBidConvSucceed", "d_"}, FinalHas: []string{"extBidConvSucceed"}, FinalLacks: []string{"extBidConvActive"}}),
		bidScenario(bid_action.BID_BIDDER_DECISION, "bidder-rejects-counter-offer", counter, func(w *harness.World, id bid_data.BidConvId) *harness.TxSpec {
			return BidBidderDecision(id, w.Users[1], bid_data.RejectBid, "reject")
		}, 1, Entry{Changed: []string{"extBidConvRejected"}, FinalHas: []string{"extBidConvRejected"}, FinalLacks: []string{"extBidConvActive"}}),
		bidScenario(bid_action.BID_OWNER_DECISION, "owner-accepts-offer-domain-changes-hands", nil, func(w *harness.World, id bid_data.BidConvId) *harness.TxSpec {
			return BidOwnerDecision(id, w.Users[0], bid_data.AcceptBid, "accept")
		}, 1, Entry{Changed: []string{"extBidConvSucceed", "d_"}, FinalHas: []string{"extBidConvSucceed"}, FinalLacks: []string{"extBidConvActive"}}),
		bidScenario(bid_action.BID_OWNER_DECISION, "owner-rejects-offer", nil, func(w *harness.World, id bid_data.BidConvId) *harness.TxSpec {
			return BidOwnerDecision(id, w.Users[0], bid_data.RejectBid, "reject")
		}, 1, Entry{Changed: []string{"extBidConvRejected"}, FinalHas: []string{"extBidConvRejected"}, FinalLacks: []string{"extBidConvActive"}}),
		bidScenario(bid_action.BID_CANCEL, "bidder-cancels", nil, func(w *harness.World, id bid_data.BidConvId) *harness.TxSpec {
			return BidCancel(id, w.Users[1], "cancel")
		}, 1, Entry{Changed: []string{"extBidConvCancelled"}, FinalHas: []string{"extBidConvCancelled"}, FinalLacks: []string{"extBidConvActive"}}),
		bidScenario(bid_action.BID_CANCEL, "bidder-cancels-after-counter-offer", counter, func(w *harness.World, id bid_data.BidConvId) *harness.TxSpec {
			return BidCancel(id, w.Users[1], "cancel")
		}, 1, Entry{Changed: []string{"extBidConvCancelled"}, FinalHas: []string{"extBidConvCancelled"}, FinalLacks: []string{"extBidConvActive"}}),
		// BID_EXPIRE is on the public router: the handler checks neither that the signer is a validator nor
		// that the deadline has passed, so a bystander (user C) closes the conversation at once
		bidScenario(bid_action.BID_EXPIRE, "expired-by-a-bystander-before-the-deadline", nil, func(w *harness.World, id bid_data.BidConvId) *harness.TxSpec {
			return BidExpire(id, w.Users[2], "expire")
		}, 1, Entry{Changed: []string{"extBidConvExpired"}, FinalHas: []string{"extBidConvExpired"}, FinalLacks: []string{"extBidConvActive"}}),
	}
	return out
}
