package xch

import (
	"bytes"
	"fmt"
	"testing"

	"verif/harness"
)

func hasPrefixKey(d []harness.KV, p string) bool {
	for _, kv := range d {
		if bytes.HasPrefix(kv.K, []byte(p)) {
			return true
		}
	}
	return false
}

// replay runs prefix and target by hand and returns the state before and after the target's block.
func replay(e Entry) (before, after []harness.KV, err error) {
	sc := e.Scenario
	w := sc.World()
	x, err := harness.StartRun(w)
	if err != nil {
		return nil, nil, err
	}
	defer x.Close()
	if sc.Prefix != nil {
		for _, b := range sc.Prefix(w) {
			if _, err := x.Block(b); err != nil {
				return nil, nil, err
			}
		}
	}
	before = x.R.Dump()
	if _, err := x.Block(harness.BlockSpec{Txs: []*harness.TxSpec{sc.Target(w)}}); err != nil {
		return nil, nil, err
	}
	return before, x.R.Dump(), nil
}

func TestScenarios(t *testing.T) {
	defer quiet()()
	defer harness.RemoveScratch()
	seen := map[string]bool{}
	for _, e := range Catalogue() {
		e := e
		name := e.Kind + "/" + e.Note
		if seen[name] {
			t.Errorf("duplicate scenario name %s", name)
		}
		seen[name] = true
		t.Run(name, func(t *testing.T) {
			x, chk, dlv, err := harness.RunScenario(e.Scenario)
			if x != nil {
				defer x.Close()
			}
			if err != nil {
				t.Fatalf("RunScenario: %v", err)
			}
			if chk.Code != 0 {
				t.Errorf("target CheckTx code %d: %s", chk.Code, chk.Log)
			}
			if dlv.Code != 0 {
				t.Errorf("target DeliverTx code %d: %s", dlv.Code, dlv.Log)
			}
			if x.R.Dead {
				t.Fatalf("application died")
			}
			final := x.R.Dump()
			for _, p := range e.FinalHas {
				if !hasPrefixKey(final, p) {
					t.Errorf("final state has no key with prefix %q", p)
				}
			}
			for _, p := range e.FinalLacks {
				if hasPrefixKey(final, p) {
					t.Errorf("final state still has a key with prefix %q", p)
				}
			}
			// the target's block must change something an empty block would not change
			before, after, err := replay(e)
			if err != nil {
				t.Fatalf("replay: %v", err)
			}
			ch := diff(before, after)
			relevant := 0
			for _, c := range ch {
				if !isBookkeeping(c.K) {
					relevant++
				}
			}
			if relevant == 0 {
				t.Errorf("target's block changed nothing but bookkeeping keys")
			}
			for _, p := range e.Changed {
				ok := false
				for _, c := range ch {
					if bytes.HasPrefix(c.K, []byte(p)) {
						ok = true
					}
				}
				if !ok {
					t.Errorf("target's block changed no key with prefix %q", p)
				}
			}
			if testing.Verbose() {
				logDiff(t, "target", before, after, false)
				logDiff(t, "after ", after, final, false)
			}
		})
	}
}

// hostile returns, per constructor, transactions with an unknown currency, a negative amount, a
// third-party address in the address fields, and malformed embedded data.
func hostile(w *harness.World) map[string]*harness.TxSpec {
	A, B, C := w.Users[0], w.Users[1], w.Users[2]
	EA := w.EthUsers[0]
	neg := harness.Amt("-5")
	name := TrackerName(lockRaw(w))
	id := BidConvID(A.Addr, bidDomain, 0x21, B.Addr, 4)
	cid := OLVMChainID(w)
	h := map[string]*harness.TxSpec{
		// ---- lock / redeem: the amount lives inside the embedded Ethereum transaction
		"EthLock/third-party-locker-signed-by-attacker":  EthLockAddr(B.Addr, lockRaw(w), "h", C),
		"EthLock/garbage-bytes":                          EthLock(A, []byte("not an ethereum transaction"), "h"),
		"EthLock/empty-bytes":                            EthLock(A, nil, "h"),
		"EthLock/contract-creation-to-nil":               EthLock(A, SignEthTx(newContractCreation(), EA.Eth), "h"),
		"EthLock/wrong-to":                               EthLock(A, RawEthTx(EA.Eth, 0, harness.ERCContractAddr, eth(1), []byte{0xf8, 0x3d, 0x08, 0xba}), "h"),
		"EthLock/wrong-selector":                         EthLock(A, RawEthTx(EA.Eth, 0, harness.ETHContractAddr, eth(1), []byte{1, 2, 3, 4}), "h"),
		"EthLock/value-above-cap":                        EthLock(A, RawLockTx(EA.Eth, 0, eth(1000000)), "h"),
		"EthLock/no-signers":                             &harness.TxSpec{Type: EthLock(A, lockRaw(w), "h").Type, Data: EthLock(A, lockRaw(w), "h").Data, Fee: EthLock(A, lockRaw(w), "h").Fee, Memo: "h"},
		"EthLock/fee-currency-XXX":                       withFee(EthLock(A, lockRaw(w), "h"), "XXX", "1000000000"),
		"EthLock/fee-price-negative":                     withFee(EthLock(A, lockRaw(w), "h"), "OLT", "-1000000000"),
		"ERC20Lock/third-party-locker":                   ERC20LockAddr(B.Addr, ercLockRaw(w), "h", C),
		"ERC20Lock/garbage-bytes":                        ERC20Lock(A, []byte("garbage"), "h"),
		"ERC20Lock/unknown-token":                        ERC20Lock(A, RawERC20LockTx(EA.Eth, 0, harness.ETHContractAddr, harness.ERCContractAddr, eth(1)), "h"),
		"ERC20Lock/no-transfer-selector":                 ERC20Lock(A, RawEthTx(EA.Eth, 0, harness.TTCTokenAddr, eth(0), []byte{1, 2, 3, 4}), "h"),
		"ERC20Lock/short-call-data":                      ERC20Lock(A, RawEthTx(EA.Eth, 0, harness.TTCTokenAddr, eth(0), []byte{0xa9, 0x05, 0x9c, 0xbb, 1, 2}), "h"),
		"ERC20Lock/receiver-not-the-contract":            ERC20Lock(A, RawERC20LockTx(EA.Eth, 0, harness.TTCTokenAddr, harness.ETHContractAddr, eth(1)), "h"),
		"ERC20Lock/contract-creation-to-nil":             ERC20Lock(A, SignEthTx(newContractCreation(), EA.Eth), "h"),
		"ERC20Lock/amount-above-cap":                     ERC20Lock(A, RawERC20LockTx(EA.Eth, 0, harness.TTCTokenAddr, harness.ERCContractAddr, eth(1000000)), "h"),
		"EthRedeem/third-party-owner-signed-by-attacker": EthRedeemAddr(B.Addr, ethAddrOf(EA), redeemRaw(w), "h", C),
		"EthRedeem/garbage-bytes-no-selector":            EthRedeem(A, ethAddrOf(EA), []byte("garbage"), "h"),
		"EthRedeem/empty-bytes":                          EthRedeem(A, ethAddrOf(EA), []byte{}, "h"),
		"EthRedeem/selector-then-short":                  EthRedeem(A, ethAddrOf(EA), []byte{0xdb, 0x00, 0x6a, 0x75, 1}, "h"),
		"EthRedeem/huge-amount":                          EthRedeem(A, ethAddrOf(EA), RawRedeemTx(EA.Eth, 0, eth(1000000)), "h"),
		"EthRedeem/bare-selector-and-amount-not-a-tx":    EthRedeem(A, ethAddrOf(EA), append([]byte{0xdb, 0x00, 0x6a, 0x75}, Word(1)...), "h"),
		"ERC20Redeem/third-party-owner":                  ERC20RedeemAddr(B.Addr, ethAddrOf(EA), ercRedeemRaw(w), "h", C),
		"ERC20Redeem/garbage-bytes-no-selector":          ERC20Redeem(A, ethAddrOf(EA), []byte("garbage"), "h"),
		"ERC20Redeem/selector-then-short":                ERC20Redeem(A, ethAddrOf(EA), []byte{0x7b, 0xde, 0x82, 0xf2, 1}, "h"),
		"ERC20Redeem/unknown-token":                      ERC20Redeem(A, ethAddrOf(EA), RawERC20RedeemTx(EA.Eth, 0, harness.ETHContractAddr, eth(1)), "h"),
		"ERC20Redeem/huge-amount":                        ERC20Redeem(A, ethAddrOf(EA), RawERC20RedeemTx(EA.Eth, 0, harness.TTCTokenAddr, eth(1000000)), "h"),
		// ---- finality report
		"ReportFinality/non-witness-user":         ReportFinality(C, name, C.Addr, 0, true, "h"),
		"ReportFinality/negative-index":           ReportFinality(w.Vals[0].Val, name, A.Addr, -1, true, "h"),
		"ReportFinality/huge-index":               ReportFinality(w.Vals[0].Val, name, A.Addr, 1<<40, true, "h"),
		"ReportFinality/witness-address-by-other": ReportFinalityAddr(w.Vals[0].Val.Addr, name, C.Addr, 0, true, "h", C),
		"ReportFinality/unknown-tracker":          ReportFinality(w.Vals[0].Val, TrackerName([]byte("nope")), A.Addr, 0, true, "h"),
		// ---- OLVM
		"OLVM/currency-XXX":             OLVM(EA, EA.Addr, &B.Addr, 0, harness.Coin("XXX", harness.OLTUnits(1)), nil, cid, ""),
		"OLVM/negative-value":           OLVM(EA, EA.Addr, &B.Addr, 0, harness.Coin("OLT", neg), nil, cid, ""),
		"OLVM/from-third-party":         OLVM(EA, A.Addr, &B.Addr, 0, olt(1), nil, cid, ""),
		"OLVM/ed25519-signer":           OLVM(A, A.Addr, &B.Addr, 0, olt(1), nil, cid, ""),
		"OLVM/wrong-chain-id":           OLVM(EA, EA.Addr, &B.Addr, 0, olt(1), nil, eth(1), ""),
		"OLVM/nil-chain-id":             OLVM(EA, EA.Addr, &B.Addr, 0, olt(1), nil, nil, ""),
		"OLVM/memo-not-nonce":           OLVM(EA, EA.Addr, &B.Addr, 0, olt(1), nil, cid, "7"),
		"OLVM/value-above-balance":      OLVM(EA, EA.Addr, &B.Addr, 0, harness.Coin("OLT", harness.Amt("9000000000000000000000000000000")), nil, cid, ""),
		"OLVM/gas-below-intrinsic":      withGas(OLVM(EA, EA.Addr, &B.Addr, 0, olt(1), nil, cid, ""), 1000),
		"OLVM/gas-negative":             withGas(OLVM(EA, EA.Addr, &B.Addr, 0, olt(1), nil, cid, ""), -1),
		"OLVM/fee-currency-XXX":         withFee(OLVM(EA, EA.Addr, &B.Addr, 0, olt(1), nil, cid, ""), "XXX", "1000000000"),
		"OLVM/fee-price-negative":       withFee(OLVM(EA, EA.Addr, &B.Addr, 0, olt(1), nil, cid, ""), "OLT", "-1000000000"),
		"OLVM/fee-price-huge":           withFee(OLVM(EA, EA.Addr, &B.Addr, 0, olt(1), nil, cid, ""), "OLT", "1000000000000000000000000000000000000000"),
		"OLVM/init-code-invalid-opcode": OLVM(EA, EA.Addr, nil, 0, olt(0), []byte{0xfe}, cid, ""),
		"OLVM/init-code-returns-0xEF":   OLVM(EA, EA.Addr, nil, 0, olt(0), InitCode([]byte{0xef, 0x00}), cid, ""),
		// ---- bid
		"BidCreate/currency-XXX":               BidCreate("", A.Addr, "thing", bid_data_example, B, harness.Coin("XXX", harness.OLTUnits(1)), bidDeadline(w, 40), "h"),
		"BidCreate/negative-amount":            BidCreate("", A.Addr, "thing", bid_data_example, B, harness.Coin("OLT", neg), bidDeadline(w, 40), "h"),
		"BidCreate/third-party-bidder":         BidCreate("", A.Addr, "thing", bid_data_example, B, olt(5), bidDeadline(w, 40), "h", C),
		"BidCreate/unknown-asset-type":         BidCreate("", A.Addr, "thing", 0x7f, B, olt(5), bidDeadline(w, 40), "h"),
		"BidCreate/domain-not-existing":        BidCreate("", A.Addr, "nobody.ol", 0x21, B, olt(5), bidDeadline(w, 40), "h"),
		"BidCreate/amount-above-balance":       BidCreate("", A.Addr, "thing", bid_data_example, B, harness.Coin("OLT", harness.Amt("9000000000000000000000000000000")), bidDeadline(w, 40), "h"),
		"BidCreate/deadline-negative":          BidCreate("", A.Addr, "thing", bid_data_example, B, olt(5), -1, "h"),
		"BidCreate/unknown-conversation":       BidCreate(id, nil, "", 0, B, olt(5), 0, "h"),
		"BidCreate/bad-conversation-id":        BidCreate("xyz", nil, "", 0, B, olt(5), 0, "h"),
		"BidCounterOffer/unknown":              BidCounterOffer(id, A, olt(30), "h"),
		"BidCounterOffer/currency-XXX":         BidCounterOffer(id, A, harness.Coin("XXX", harness.OLTUnits(1)), "h"),
		"BidCounterOffer/negative":             BidCounterOffer(id, A, harness.Coin("OLT", neg), "h"),
		"BidCounterOffer/third-party-owner":    BidCounterOffer(id, A, olt(30), "h", C),
		"BidCancel/unknown":                    BidCancel(id, B, "h"),
		"BidCancel/third-party-bidder":         BidCancel(id, B, "h", C),
		"BidBidderDecision/unknown":            BidBidderDecision(id, B, 1, "h"),
		"BidBidderDecision/bad-decision":       BidBidderDecision(id, B, 99, "h"),
		"BidBidderDecision/third-party":        BidBidderDecision(id, B, 1, "h", C),
		"BidOwnerDecision/unknown":             BidOwnerDecision(id, A, 1, "h"),
		"BidOwnerDecision/bad-decision":        BidOwnerDecision(id, A, -3, "h"),
		"BidOwnerDecision/third-party":         BidOwnerDecision(id, A, 1, "h", C),
		"BidExpire/unknown":                    BidExpire(id, C, "h"),
		"BidExpire/third-party-validator-addr": BidExpire(id, w.Vals[0].Val, "h", C),
		"BidExpire/empty-id":                   BidExpire("", C, "h"),
	}
	return h
}

// hostileLive: hostile transactions against a LIVE object (an ongoing lock tracker with two yes votes
// and an active bid conversation with a counter offer), built for the state prepared by liveBlocks.
func liveBlocks(w *harness.World) []harness.BlockSpec {
	bs, id := bidOpen(w, 60)
	name := TrackerName(lockRaw(w))
	bs[1].Txs = append(bs[1].Txs, submit("lock", w, "submit"))
	bs[3].Txs = append(bs[3].Txs, Votes(w, name, w.Users[0].Addr, true, "pv", 0, 1)...)
	bs = append(bs, blk(BidCounterOffer(id, w.Users[0], olt(30), "counter")))
	return bs
}

func hostileLive(w *harness.World) map[string]*harness.TxSpec {
	A, B, C := w.Users[0], w.Users[1], w.Users[2]
	_, id := bidOpen(w, 60)
	name := TrackerName(lockRaw(w))
	ws := Witnesses(w)
	neg := harness.Amt("-5")
	return map[string]*harness.TxSpec{
		"live/EthLock/same-eth-tx-again":                   EthLock(B, lockRaw(w), "again"),
		"live/ReportFinality/non-witness-user":             ReportFinality(C, name, C.Addr, 2, true, "h"),
		"live/ReportFinality/non-witness-claims-index":     ReportFinalityAddr(C.Addr, name, C.Addr, 2, true, "h", C),
		"live/ReportFinality/witness-wrong-index":          ReportFinality(ws[2].Val, name, C.Addr, 0, true, "h"),
		"live/ReportFinality/witness-votes-twice":          ReportFinality(ws[0].Val, name, C.Addr, 0, true, "h"),
		"live/ReportFinality/witness-index-out-of-range":   ReportFinality(ws[2].Val, name, C.Addr, 3, true, "h"),
		"live/ReportFinality/witness-addr-signed-by-other": ReportFinalityAddr(ws[2].Val.Addr, name, C.Addr, 2, true, "h", C),
		"live/BidCreate/negative-new-offer":                BidCreate(id, nil, "", 0, B, harness.Coin("OLT", neg), 0, "h"),
		"live/BidCreate/currency-XXX-new-offer":            BidCreate(id, nil, "", 0, B, harness.Coin("XXX", harness.OLTUnits(1)), 0, "h"),
		"live/BidCreate/new-offer-by-third-party":          BidCreate(id, nil, "", 0, C, olt(25), 0, "h"),
		"live/BidCreate/new-offer-above-counter":           BidCreate(id, nil, "", 0, B, olt(31), 0, "h"),
		"live/BidCounterOffer/on-counter-offer":            BidCounterOffer(id, A, olt(40), "h"),
		"live/BidCounterOffer/by-third-party":              BidCounterOffer(id, C, olt(40), "h"),
		"live/BidBidderDecision/by-third-party":            BidBidderDecision(id, C, 1, "h"),
		"live/BidBidderDecision/bad-decision":              BidBidderDecision(id, B, 0, "h"),
		"live/BidOwnerDecision/on-counter-offer":           BidOwnerDecision(id, A, 1, "h"),
		"live/BidCancel/by-third-party":                    BidCancel(id, C, "h"),
		"live/BidCancel/bidder-addr-signed-by-other":       BidCancel(id, B, "h", C),
	}
}

func sortedKeys(m map[string]*harness.TxSpec) []string {
	var ks []string
	for k := range m {
		ks = append(ks, k)
	}
	for i := range ks {
		for j := i + 1; j < len(ks); j++ {
			if ks[j] < ks[i] {
				ks[i], ks[j] = ks[j], ks[i]
			}
		}
	}
	return ks
}

// probe sends tx through CheckTx on one fresh run and through DeliverTx (without CheckTx) on another
// and logs what happened. Nothing here fails the test: these are findings for later checks.
func probe(t *testing.T, label string, world func() *harness.World, prefix func(w *harness.World) []harness.BlockSpec, mk func(w *harness.World) *harness.TxSpec) {
	run := func(deliver bool) string {
		w := world()
		x, err := harness.StartRun(w)
		if err != nil {
			return "start: " + err.Error()
		}
		defer x.Close()
		for _, b := range prefix(w) {
			if _, err := x.Block(b); err != nil {
				return "prefix: " + err.Error()
			}
		}
		var raw []byte
		func() {
			defer func() {
				if r := recover(); r != nil {
					raw = nil
				}
			}()
			raw = mk(w).Bytes()
		}()
		if raw == nil {
			return "cannot be serialised by the factory"
		}
		if !deliver {
			r := x.R.CheckTx(raw)
			return fmt.Sprintf("code=%d dead=%v log=%.140q", r.Code, x.R.Dead, r.Log)
		}
		before := x.R.Dump()
		res, err := x.Block(harness.BlockSpec{Raw: [][]byte{raw}, NoCheck: true})
		if res == nil {
			return fmt.Sprintf("no result err=%v", err)
		}
		s := fmt.Sprintf("code=%d dead=%v log=%.140q", res.Txs[0].Code, x.R.Dead, res.Txs[0].Log)
		if err != nil {
			s += " chain-halt=" + err.Error()
		}
		if !x.R.Dead {
			n := 0
			for _, c := range diff(before, x.R.Dump()) {
				if !isBookkeeping(c.K) {
					n++
				}
			}
			s += fmt.Sprintf(" changed-keys=%d", n)
			// the block after must still work
			if _, err := x.Block(harness.BlockSpec{}); err != nil || x.R.Dead {
				s += fmt.Sprintf(" NEXT-BLOCK-BROKEN err=%v dead=%v", err, x.R.Dead)
			}
		}
		return s
	}
	t.Logf("%-55s check:   %s", label, run(false))
	t.Logf("%-55s deliver: %s", label, run(true))
}

func TestConstructorsHostile(t *testing.T) {
	defer quiet()()
	defer harness.RemoveScratch()
	world := func() *harness.World { return EthWorld("hostile", 4, 3) }
	w0 := world()
	fresh := func(w *harness.World) []harness.BlockSpec { return []harness.BlockSpec{blk(), blk()} }
	for _, k := range sortedKeys(hostile(w0)) {
		k := k
		probe(t, k, world, fresh, func(w *harness.World) *harness.TxSpec { return hostile(w)[k] })
	}
	for _, k := range sortedKeys(hostileLive(w0)) {
		k := k
		probe(t, k, world, liveBlocks, func(w *harness.World) *harness.TxSpec { return hostileLive(w)[k] })
	}
}

// TestFresh: Target(w).Fresh(tag) must be a different transaction that is valid in the same place.
func TestFresh(t *testing.T) {
	defer quiet()()
	defer harness.RemoveScratch()
	for _, e := range Catalogue() {
		sc := *e.Scenario
		orig := sc.Target
		var a, b []byte
		sc.Target = func(w *harness.World) *harness.TxSpec {
			o := orig(w)
			f := o.Fresh("alt")
			a, b = o.Bytes(), f.Bytes()
			return f
		}
		sc.After = 0
		x, chk, dlv, err := harness.RunScenario(&sc)
		if x != nil {
			x.Close()
		}
		if err != nil {
			t.Errorf("%s/%s: %v", sc.Kind, sc.Note, err)
			continue
		}
		if bytes.Equal(a, b) {
			t.Errorf("%s/%s: Fresh() returned identical bytes", sc.Kind, sc.Note)
		}
		if chk.Code != 0 || dlv.Code != 0 {
			t.Errorf("%s/%s: fresh variant rejected: check=%d %s deliver=%d %s", sc.Kind, sc.Note, chk.Code, chk.Log, dlv.Code, dlv.Log)
		}
	}
}
