package xch

import (
	"bytes"
	"math/big"
	"os"
	"strings"
	"testing"

	"github.com/Oneledger/protocol/action"
	"github.com/Oneledger/protocol/external_apps/bid/bid_data"

	"verif/harness"
)

// The application logs to fd 1 and (through loggers created at start-up) to whatever os.Stdout is at
// that moment, while the testing package writes its own report to os.Stdout. So: silence fd 1 and
// point os.Stdout at the saved real stdout for the testing package.
// The testing package captures os.Stdout once inside m.Run(); while a test body runs, os.Stdout is
// pointed back at the silenced fd 1 (quiet()).
var appStdout, testStdout *os.File

func TestMain(m *testing.M) {
	harness.SilenceStdout()
	appStdout = os.Stdout
	testStdout = harness.Out()
	os.Stdout = testStdout
	code := m.Run()
	harness.RemoveScratch()
	os.Exit(code)
}

func quiet() func() {
	harness.SilenceStdout()
	os.Stdout = appStdout
	return func() { os.Stdout = testStdout }
}

func printable(b []byte) string {
	var sb strings.Builder
	for _, c := range b {
		if c >= 32 && c < 127 {
			sb.WriteByte(c)
		} else {
			sb.WriteString("\\x")
			sb.WriteString("0123456789abcdef"[c>>4 : c>>4+1])
			sb.WriteString("0123456789abcdef"[c&15 : c&15+1])
		}
	}
	s := sb.String()
	if len(s) > 300 {
		s = s[:300] + "..."
	}
	return s
}

// bookkeeping keys change in every block, whatever the block contains
func isBookkeeping(k []byte) bool {
	for _, p := range []string{"rwz", "ri", "rwaddr", "rwcum", "es__", "f_", "b_0lt726577617264706f6f6c_", "v_", "g_"} {
		if bytes.HasPrefix(k, []byte(p)) {
			return true
		}
	}
	return false
}

type change struct {
	Op   byte // '+', '~', '-'
	K, V []byte
	Old  []byte
}

func diff(before, after []harness.KV) []change {
	m := map[string][]byte{}
	for _, kv := range before {
		m[string(kv.K)] = kv.V
	}
	seen := map[string]bool{}
	var out []change
	for _, kv := range after {
		seen[string(kv.K)] = true
		old, ok := m[string(kv.K)]
		if !ok {
			out = append(out, change{'+', kv.K, kv.V, nil})
		} else if !bytes.Equal(old, kv.V) {
			out = append(out, change{'~', kv.K, kv.V, old})
		}
	}
	for _, kv := range before {
		if !seen[string(kv.K)] {
			out = append(out, change{'-', kv.K, nil, kv.V})
		}
	}
	return out
}

func logDiff(t *testing.T, label string, before, after []harness.KV, all bool) {
	for _, c := range diff(before, after) {
		if !all && isBookkeeping(c.K) {
			continue
		}
		switch c.Op {
		case '+':
			t.Logf("  %s + %s = %s", label, printable(c.K), printable(c.V))
		case '~':
			t.Logf("  %s ~ %s = %s (was %s)", label, printable(c.K), printable(c.V), printable(c.Old))
		case '-':
			t.Logf("  %s - %s", label, printable(c.K))
		}
	}
}

func TestExploreEth(t *testing.T) {
	if os.Getenv("XCH_EXPLORE") == "" {
		t.Skip()
	}
	defer quiet()()
	w := harness.NewWorld("explore", 4, 3)
	x, err := harness.StartRun(w)
	if err != nil {
		t.Fatal(err)
	}
	defer x.Close()
	A := w.Users[0]
	ek := w.EthUsers[0].Eth
	raw := RawLockTx(ek, 0, big.NewInt(1000000000000000000))
	name := TrackerName(raw)
	t.Logf("tracker %x", name)
	step := func(label string, txs ...*harness.TxSpec) {
		before := x.R.Dump()
		res, err := x.Block(harness.BlockSpec{Txs: txs})
		if err != nil {
			t.Fatal(err)
		}
		for i, r := range res.Txs {
			t.Logf("%s h=%d tx%d check=%v %q deliver=%v %q", label, res.Height, i, x.Checks[len(x.Checks)-1][i], x.Checks[len(x.Checks)-1][i].Log, r, r.Log)
		}
		logDiff(t, label, before, x.R.Dump(), false)
	}
	step("empty")
	step("empty")
	step("lock", EthLock(A, raw, "m1"))
	step("after1")
	step("after2")
	v := Votes(w, name, A.Addr, true, "v", 0, 1, 2)
	step("vote0", v[0])
	step("after-vote0")
	step("vote1", v[1])
	step("vote2", v[2])
	step("after3")
	step("after4")
	step("relock", EthLock(A, raw, "m2"))
}

type stepper struct {
	t *testing.T
	x *harness.Run
}

func (s *stepper) step(label string, txs ...*harness.TxSpec) *harness.BlockResult {
	before := s.x.R.Dump()
	res, err := s.x.Block(harness.BlockSpec{Txs: txs})
	if err != nil {
		s.t.Fatal(err)
	}
	for i, r := range res.Txs {
		c := s.x.Checks[len(s.x.Checks)-1][i]
		s.t.Logf("%s h=%d tx%d check=%v %q deliver=%v %q", label, res.Height, i, c, c.Log, r, r.Log)
	}
	logDiff(s.t, label, before, s.x.R.Dump(), false)
	return res
}

func TestExploreOLVM(t *testing.T) {
	if os.Getenv("XCH_EXPLORE") == "" {
		t.Skip()
	}
	defer quiet()()
	w := harness.NewWorld("explore", 4, 3)
	x, err := harness.StartRun(w)
	if err != nil {
		t.Fatal(err)
	}
	defer x.Close()
	s := &stepper{t, x}
	EA, EB := w.EthUsers[0], w.EthUsers[1]
	s.step("empty")
	s.step("send", OLVMSend(w, EA, EB.Addr, 0, harness.OLTUnits(3)))
	s.step("create", OLVMCreate(w, EA, 1, harness.Amt("0"), InitCode(StoreRuntime)))
	c := ContractAddr(EA, 1)
	t.Logf("contract %x", c)
	s.step("call-ok", OLVMCall(w, EA, c, 2, harness.Amt("0"), Word(7)))
	s.step("call-revert", OLVMCall(w, EA, c, 3, harness.Amt("0"), Word(0)))
	oog := OLVMCall(w, EA, c, 4, harness.Amt("0"), Word(9))
	oog.Fee.Gas = 30000
	s.step("call-oog", oog)
	s.step("gap", OLVMSend(w, EA, EB.Addr, 9, harness.OLTUnits(1)))
	s.step("after-gap-low", OLVMSend(w, EA, EB.Addr, 5, harness.OLTUnits(1)))
	s.step("after-gap-6", OLVMSend(w, EA, EB.Addr, 6, harness.OLTUnits(1)))
	s.step("create-kill", OLVMCreate(w, EB, 0, harness.OLTUnits(2), InitCode(KillRuntime)))
	k := ContractAddr(EB, 0)
	s.step("kill", OLVMCall(w, EA, k, 7, harness.Amt("0"), nil))
	s.step("empty")
}

func TestExploreBid(t *testing.T) {
	if os.Getenv("XCH_EXPLORE") == "" {
		t.Skip()
	}
	defer quiet()()
	w := harness.NewWorld("explore", 4, 3)
	x, err := harness.StartRun(w)
	if err != nil {
		t.Fatal(err)
	}
	defer x.Close()
	s := &stepper{t, x}
	A, B, C := w.Users[0], w.Users[1], w.Users[2]
	olt := func(n int64) action.Amount { return harness.Coin("OLT", harness.OLTUnits(n)) }
	deadline := w.GenesisTime.Unix() + 17*8
	s.step("empty")
	s.step("domain", DomainCreate(A, "alice.ol", olt(110), "d1"))
	s.step("empty")
	r := s.step("bid-create", BidCreate("", A.Addr, "alice.ol", bid_data.BidAssetOns, B, olt(20), deadline, "b1"))
	id := BidConvID(A.Addr, "alice.ol", bid_data.BidAssetOns, B.Addr, r.Height)
	t.Logf("conv id %s", id)
	s.step("counter", BidCounterOffer(id, A, olt(30), "c1"))
	s.step("bid-again", BidCreate(id, nil, "", 0, B, olt(25), 0, "b2"))
	s.step("counter2", BidCounterOffer(id, A, olt(28), "c2"))
	s.step("accept", BidBidderDecision(id, B, bid_data.AcceptBid, "a1"))
	// second conversation: expire
	r = s.step("bid-create2", BidCreate("", B.Addr, "alice.ol", bid_data.BidAssetOns, C, olt(5), deadline, "b3"))
	id2 := BidConvID(B.Addr, "alice.ol", bid_data.BidAssetOns, C.Addr, r.Height)
	for i := 0; i < 4; i++ {
		s.step("wait")
	}
	// third: example asset, expired by anybody at once
	r = s.step("bid-create3", BidCreate("", A.Addr, "thing", bid_data.BidAssetExample, C, olt(5), deadline+1000, "b4"))
	id3 := BidConvID(A.Addr, "thing", bid_data.BidAssetExample, C.Addr, r.Height)
	s.step("expire-by-anyone", BidExpire(id3, B, "e1"))
	_ = id2
}
