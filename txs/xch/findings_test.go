package xch

import (
	"bytes"
	"encoding/json"
	"fmt"
	"strings"
	"testing"

	ethcmn "github.com/ethereum/go-ethereum/common"

	"github.com/Oneledger/protocol/data/chain"
	"github.com/Oneledger/protocol/data/jobs"
	"github.com/Oneledger/protocol/data/keys"

	"verif/harness"
)

type trackerView struct {
	Type          int
	State         int
	FinalityVotes []byte // []Vote is []uint8: JSON base64
}

var stateNames = []string{"New", "BusyBroadcasting", "BroadcastSuccess", "BusyFinalizing", "Finalized", "Released", "Failed"}

// trackerAt describes where the tracker record is and in which state.
func trackerAt(d []harness.KV, name ethcmn.Hash) string {
	var out []string
	for _, p := range []string{"etht_", "ethsuccess_", "ethfailed_"} {
		for _, kv := range d {
			if bytes.Equal(kv.K, append([]byte(p), name.Bytes()...)) {
				var v trackerView
				_ = json.Unmarshal(kv.V, &v)
				out = append(out, fmt.Sprintf("%s{%s votes=%v}", p, stateNames[v.State], v.FinalityVotes))
			}
		}
	}
	if len(out) == 0 {
		return "absent"
	}
	return strings.Join(out, " + ")
}

func balanceOf(d []harness.KV, a keys.Address, cur string) string {
	k := []byte("b_" + a.String() + "_" + cur)
	for _, kv := range d {
		if bytes.Equal(kv.K, k) {
			return strings.Trim(string(kv.V), "\"")
		}
	}
	return "<none>"
}

func mustBlock(t *testing.T, x *harness.Run, txs ...*harness.TxSpec) (*harness.BlockResult, []harness.TxRes) {
	t.Helper()
	res, err := x.Block(harness.BlockSpec{Txs: txs})
	if err != nil {
		t.Fatal(err)
	}
	return res, x.Checks[len(x.Checks)-1]
}

// TestNegativeChecks: behaviours the scenarios rely on NOT happening.
func TestNegativeChecks(t *testing.T) {
	defer quiet()()
	defer harness.RemoveScratch()

	t.Run("same-eth-tx-twice", func(t *testing.T) {
		w := EthWorld("twice", 4, 3)
		x, err := harness.StartRun(w)
		if err != nil {
			t.Fatal(err)
		}
		defer x.Close()
		A, B := w.Users[0], w.Users[1]
		name := TrackerName(lockRaw(w))
		mustBlock(t, x)
		res, chk := mustBlock(t, x, EthLock(A, lockRaw(w), "first"))
		if chk[0].Code != 0 || res.Txs[0].Code != 0 {
			t.Fatalf("first lock failed: %s / %s", chk[0].Log, res.Txs[0].Log)
		}
		// while ongoing: same bytes, other memo, other locker
		res, chk = mustBlock(t, x, EthLock(B, lockRaw(w), "second"))
		if chk[0].Code == 0 || res.Txs[0].Code == 0 {
			t.Errorf("second lock of the same Ethereum transaction accepted while the first is ongoing: check=%d deliver=%d", chk[0].Code, res.Txs[0].Code)
		}
		// both in ONE block
		w2 := EthWorld("twice2", 4, 3)
		x2, err := harness.StartRun(w2)
		if err != nil {
			t.Fatal(err)
		}
		defer x2.Close()
		mustBlock(t, x2)
		res, chk = mustBlock(t, x2, EthLock(w2.Users[0], lockRaw(w2), "first"), EthLock(w2.Users[1], lockRaw(w2), "second"))
		if chk[1].Code == 0 || res.Txs[1].Code == 0 {
			t.Errorf("second lock in the same block accepted: check=%d deliver=%d", chk[1].Code, res.Txs[1].Code)
		}
		// after success
		mustBlock(t, x)
		mustBlock(t, x, Votes(w, name, A.Addr, true, "v", 0, 1, 2)...)
		mustBlock(t, x)
		t.Logf("tracker after 3 yes votes: %s", trackerAt(x.R.Dump(), name))
		res, chk = mustBlock(t, x, EthLock(A, lockRaw(w), "third"))
		if chk[0].Code == 0 || res.Txs[0].Code == 0 {
			t.Errorf("lock of an already minted Ethereum transaction accepted: check=%d deliver=%d", chk[0].Code, res.Txs[0].Code)
		}
		// a DIFFERENT Ethereum transaction whose last 32 bytes... cannot be forged without the key, but a
		// non-transaction suffix trick is excluded by the RLP decoder (trailing bytes are rejected).
		forged := append(append([]byte{}, lockRaw(w)...), 0)
		res, chk = mustBlock(t, x, EthLock(A, forged, "forged"))
		t.Logf("lock with one trailing byte: check=%d deliver=%d %s", chk[0].Code, res.Txs[0].Code, res.Txs[0].Log)
	})

	t.Run("finality-report-by-non-witness", func(t *testing.T) {
		w := EthWorld("nonwitness", 4, 3)
		x, err := harness.StartRun(w)
		if err != nil {
			t.Fatal(err)
		}
		defer x.Close()
		A, C := w.Users[0], w.Users[2]
		name := TrackerName(lockRaw(w))
		mustBlock(t, x)
		mustBlock(t, x, EthLock(A, lockRaw(w), "lock"))
		mustBlock(t, x)
		mustBlock(t, x, Votes(w, name, A.Addr, true, "v", 0, 1)...)
		before := trackerAt(x.R.Dump(), name)
		cBal := balanceOf(x.R.Dump(), C.Addr, "OLT")
		// user C, the 4th (unstaked) validator candidate, and C claiming a witness's address
		outsider := w.Vals[3].Val
		ws := Witnesses(w)
		res, chk := mustBlock(t, x,
			ReportFinality(C, name, C.Addr, 2, true, "c-own"),
			ReportFinality(outsider, name, C.Addr, 2, true, "unstaked-validator"),
			ReportFinalityAddr(ws[2].Val.Addr, name, C.Addr, 2, true, "c-claims-witness", C),
		)
		for i := range res.Txs {
			t.Logf("report %d: check code=%d %s | deliver code=%d gasUsed=%d %s", i, chk[i].Code, chk[i].Log, res.Txs[i].Code, res.Txs[i].GasUsed, res.Txs[i].Log)
		}
		after := trackerAt(x.R.Dump(), name)
		if before != after {
			t.Errorf("a non-witness report changed the tracker: %s -> %s", before, after)
		}
		if res.Txs[2].Code == 0 {
			t.Errorf("report carrying a witness address but signed by somebody else was accepted")
		}
		if res.Txs[0].Code == 0 {
			t.Logf("FINDING: a finality report by a non-witness is accepted (code 0, silently ignored) and costs nothing: balance of the sender %s -> %s", cBal, balanceOf(x.R.Dump(), C.Addr, "OLT"))
		}
		if balanceOf(x.R.Dump(), C.Addr, "ETH") != genesisETH {
			t.Errorf("non-witness report minted tokens")
		}
	})

	// (characterised "ERC20 trackers cannot fail" on the pinned tree; repaired by fix 2f3f4e2, now the opposite holds)
	t.Run("erc20-trackers-can-fail-since-2f3f4e2", func(t *testing.T) {
		w := EthWorld("ercfail", 4, 3)
		x, err := harness.StartRun(w)
		if err != nil {
			t.Fatal(err)
		}
		defer x.Close()
		A := w.Users[0]
		lname, rname := TrackerName(ercLockRaw(w)), TrackerName(ercRedeemRaw(w))
		mustBlock(t, x)
		mustBlock(t, x, submit("erc20lock", w, "l"), submit("erc20redeem", w, "r"))
		mustBlock(t, x)
		mustBlock(t, x, append(Votes(w, lname, A.Addr, false, "l", 0, 1), Votes(w, rname, A.Addr, false, "r", 0, 1)...)...)
		res, _ := mustBlock(t, x, Votes(w, lname, A.Addr, false, "l3", 2)[0], Votes(w, rname, A.Addr, false, "r3", 2)[0])
		mustBlock(t, x)
		d := x.R.Dump()
		t.Logf("third NO vote on ERC20 lock: code=%d %s -> %s", res.Txs[0].Code, res.Txs[0].Log, trackerAt(d, lname))
		t.Logf("third NO vote on ERC20 redeem: code=%d %s -> %s ; owner TTC=%s (debited %s at submission, never refunded)", res.Txs[1].Code, res.Txs[1].Log, trackerAt(d, rname), balanceOf(d, A.Addr, "TTC"), "4000000000000000000")
		if !hasPrefixKey(d, "ethfailed_") {
			t.Errorf("no ERC20 tracker reached the failed store after three NO votes")
		}
	})

	t.Run("erc20-redeem-addressed-to-contract-cannot-complete", func(t *testing.T) {
		w := EthWorld("ercredeem", 4, 3)
		x, err := harness.StartRun(w)
		if err != nil {
			t.Fatal(err)
		}
		defer x.Close()
		A := w.Users[0]
		name := TrackerName(ercRedeemRaw(w))
		mustBlock(t, x)
		mustBlock(t, x, submit("erc20redeem", w, "r"))
		mustBlock(t, x)
		mustBlock(t, x, Votes(w, name, A.Addr, true, "v", 0, 1)...)
		res, chk := mustBlock(t, x, Votes(w, name, A.Addr, true, "v3", 2)[0])
		t.Logf("third YES vote: check=%d deliver=%d %s -> %s", chk[0].Code, res.Txs[0].Code, res.Txs[0].Log, trackerAt(x.R.Dump(), name))
		if res.Txs[0].Code == 0 {
			t.Errorf("expected the completing vote to fail (token looked up by the embedded tx's `to`)")
		}
	})
}

// TestFindingsOLVM logs what SELFDESTRUCT leaves behind.
func TestFindingsOLVM(t *testing.T) {
	defer quiet()()
	defer harness.RemoveScratch()
	w := harness.NewWorld("kill", 4, 3)
	x, err := harness.StartRun(w)
	if err != nil {
		t.Fatal(err)
	}
	defer x.Close()
	EA, EB := w.EthUsers[0], w.EthUsers[1]
	k := ContractAddr(EB, 0)
	kaddr := keys.Address(k.Bytes())
	mustBlock(t, x)
	mustBlock(t, x, OLVMCreate(w, EB, 0, harness.OLTUnits(2), InitCode(KillRuntime)))
	d := x.R.Dump()
	t.Logf("before kill: contract balance=%s caller balance=%s", balanceOf(d, kaddr, "OLT"), balanceOf(d, EA.Addr, "OLT"))
	res, _ := mustBlock(t, x, OLVMCall(w, EA, k, 0, harness.Amt("0"), nil))
	d = x.R.Dump()
	t.Logf("kill: code=%d gasUsed=%d", res.Txs[0].Code, res.Txs[0].GasUsed)
	t.Logf("after kill:  contract balance=%s caller balance=%s code-key-left=%v storage-key-left=%v", balanceOf(d, kaddr, "OLT"), balanceOf(d, EA.Addr, "OLT"),
		hasPrefixKey(d, "contracts_\x01"), hasPrefixKey(d, "contracts_\x02"+string(k.Bytes())))
	if balanceOf(d, kaddr, "OLT") != "0" && balanceOf(d, kaddr, "OLT") != "<none>" {
		t.Logf("FINDING: SELFDESTRUCT credited the beneficiary but left the destroyed contract's balance record in place (value duplicated)")
	}
}

// TestFindingsBid logs what a negative bid amount does.
func TestFindingsBid(t *testing.T) {
	defer quiet()()
	defer harness.RemoveScratch()
	w := harness.NewWorld("negbid", 4, 3)
	x, err := harness.StartRun(w)
	if err != nil {
		t.Fatal(err)
	}
	defer x.Close()
	A, B, C := w.Users[0], w.Users[1], w.Users[2]
	bal := func(a *harness.Account) string { return balanceOf(x.R.Dump(), a.Addr, "OLT") }
	mustBlock(t, x)
	t.Logf("start:            bidder B=%s  friend C=%s", bal(B), bal(C))
	huge := harness.Coin("OLT", harness.Amt("-5000000000000000000000000000")) // -5e9 OLT, 5x B's balance
	res, chk := mustBlock(t, x, BidCreate("", A.Addr, "thing", bid_data_example, B, huge, bidDeadline(w, 5), "neg"))
	t.Logf("negative bid:     check=%d deliver=%d %s", chk[0].Code, res.Txs[0].Code, res.Txs[0].Log)
	t.Logf("after bid:        bidder B=%s", bal(B))
	res, chk = mustBlock(t, x, harness.Send(B, C.Addr, harness.Coin("OLT", harness.Amt("5900000000000000000000000000")), "move"))
	t.Logf("B sends 5.9e9 OLT to C: check=%d deliver=%d %s", chk[0].Code, res.Txs[0].Code, res.Txs[0].Log)
	t.Logf("after send:       bidder B=%s  friend C=%s", bal(B), bal(C))
	for i := 0; i < 4; i++ {
		mustBlock(t, x)
	}
	d := x.R.Dump()
	t.Logf("after deadline:   bidder B=%s  friend C=%s  expired=%v active=%v dead=%v", bal(B), bal(C), hasPrefixKey(d, "extBidConvExpired"), hasPrefixKey(d, "extBidConvActive"), x.R.Dead)
}

func jobsOf(x *harness.Run) string {
	var out []string
	x.R.App.VerifJobStore().WithChain(chain.ETHEREUM).Iterate(func(j jobs.Job) {
		id := j.GetJobID()
		out = append(out, fmt.Sprintf("%s#%s(done=%v failed=%v)", j.GetType(), id[strings.LastIndex(id, "_")+1:], j.IsDone(), j.IsFailed()))
	})
	if len(out) == 0 {
		return "-"
	}
	return strings.Join(out, ",")
}

// TestWitnessStateMachine logs, block by block, the tracker record and the node-local job store for
// the same history executed (W) on a witness node, (N) on a non-witness node and (M) on a node that is a
// witness from block 4 on, i.e. whose job store lacks the broadcast job that a witness creates at the
// New -> BusyBroadcasting transition (what happens after a restart: the witness flag is computed once at
// process start from the witness store, which is still empty when a fresh node starts before InitChain).
func TestWitnessStateMachine(t *testing.T) {
	defer quiet()()
	defer harness.RemoveScratch()
	for _, kind := range []string{"lock", "redeem"} {
		type variant struct {
			name    string
			witness func(h int64) bool
		}
		variants := []variant{
			{"W witness", func(int64) bool { return true }},
			{"N non-witness", func(int64) bool { return false }},
			{"M witness-from-block-4", func(h int64) bool { return h >= 4 }},
		}
		hashes := map[string][]string{}
		for _, v := range variants {
			w := EthWorld("sm", 4, 3)
			id := harness.IdentityOf(w.Vals[0])
			id.IsWitness = v.witness(0)
			x, err := harness.StartRunAs(w, id)
			if err != nil {
				t.Fatal(err)
			}
			A := w.Users[0]
			name := TrackerName(rawOf(kind, w))
			ws := Witnesses(w)
			self := WitnessIndex(w, w.Vals[0])
			other := []int{}
			for i := range ws {
				if int64(i) != self {
					other = append(other, i)
				}
			}
			script := [][]*harness.TxSpec{
				nil,                         // 1
				{submit(kind, w, "submit")}, // 2
				nil,                         // 3  New -> BusyBroadcasting
				nil,                         // 4  nothing (no votes)
				Votes(w, name, A.Addr, true, "v", other[0]), // 5 first vote, by ANOTHER witness
				nil, // 6
				Votes(w, name, A.Addr, true, "v", other[1]),  // 7
				Votes(w, name, A.Addr, true, "v", int(self)), // 8 third vote: mint/release + cleanup
				nil, // 9
			}
			for i, txs := range script {
				h := int64(i + 1)
				x.R.ID.IsWitness = v.witness(h)
				res, err := x.Block(harness.BlockSpec{Txs: txs})
				if err != nil {
					t.Fatal(err)
				}
				codes := ""
				for _, r := range res.Txs {
					codes += fmt.Sprintf(" tx:code=%d", r.Code)
				}
				t.Logf("%-7s %-24s h=%d%s  tracker=%s  jobs=%s", kind, v.name, h, codes, trackerAt(x.R.Dump(), name), jobsOf(x))
				hashes[v.name] = append(hashes[v.name], fmt.Sprintf("%x", res.AppHash))
			}
			x.Close()
		}
		for i := range hashes[variants[0].name] {
			for _, v := range variants[1:] {
				if hashes[v.name][i] != hashes[variants[0].name][i] {
					t.Logf("FINDING %s: app hash of %q differs from %q at height %d", kind, v.name, variants[0].name, i+1)
					break
				}
			}
		}
	}
}
