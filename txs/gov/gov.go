// Package gov is the transaction factory for the governance (proposal) and ONS (domain) transaction
// kinds. Every constructor takes RAW field values, performs no validation whatsoever and returns a
// *harness.TxSpec whose payload is produced by the repository's own message struct and Marshal().
//
// Convention: an address field that is also the required signer is passed as *harness.Account (the
// payload carries acct.Addr; when no explicit signers are given the account signs). To put an address
// into such a field WITHOUT owning its key use AddrOnly(addr) and pass the real signer(s) explicitly.
// Address fields that never sign are plain keys.Address.
package gov

import (
	"crypto/sha256"
	"encoding/hex"

	"github.com/Oneledger/protocol/action"
	govact "github.com/Oneledger/protocol/action/governance"
	onsact "github.com/Oneledger/protocol/action/ons"
	"github.com/Oneledger/protocol/data/balance"
	"github.com/Oneledger/protocol/data/governance"
	"github.com/Oneledger/protocol/data/keys"
	"github.com/Oneledger/protocol/data/ons"

	"verif/harness"
)

// AddrOnly wraps a bare address into an Account that cannot sign (hostile third-party address in a
// signer field). Pass the real signers explicitly when using it.
func AddrOnly(a keys.Address) *harness.Account {
	return &harness.Account{Name: "addr-only", Addr: a}
}

// PID derives a well-formed proposal id (64 hex characters) from a seed string.
func PID(seed string) governance.ProposalID {
	h := sha256.Sum256([]byte("verif-proposal-" + seed))
	return governance.ProposalID(hex.EncodeToString(h[:]))
}

func signersOr(given []*harness.Account, def ...*harness.Account) []*harness.Account {
	if len(given) > 0 {
		return given
	}
	return def
}

func addrOf(a *harness.Account) keys.Address {
	if a == nil {
		return nil
	}
	return a.Addr
}

// ---------------------------------------------------------------------------------------------
// governance
// ---------------------------------------------------------------------------------------------

// ProposalCreate builds PROPOSAL_CREATE. Required signer: Proposer. fundingGoal may be nil (hostile).
func ProposalCreate(id governance.ProposalID, typ governance.ProposalType, headline, descr string,
	proposer *harness.Account, initialFunding action.Amount, fundingDeadline int64, fundingGoal *balance.Amount,
	votingDeadline int64, passPercentage int, configUpdate string, memo string, signers ...*harness.Account) *harness.TxSpec {
	msg := govact.CreateProposal{
		ProposalID:      id,
		ProposalType:    typ,
		Headline:        headline,
		Description:     descr,
		Proposer:        addrOf(proposer),
		InitialFunding:  initialFunding,
		FundingDeadline: fundingDeadline,
		FundingGoal:     fundingGoal,
		VotingDeadline:  votingDeadline,
		PassPercentage:  passPercentage,
		ConfigUpdate:    configUpdate,
	}
	return harness.NewTx(action.PROPOSAL_CREATE, &msg, memo, signersOr(signers, proposer)...)
}

// ProposalFund builds PROPOSAL_FUND. Required signer: FunderAddress.
func ProposalFund(id governance.ProposalID, funder *harness.Account, value action.Amount, memo string, signers ...*harness.Account) *harness.TxSpec {
	msg := govact.FundProposal{ProposalId: id, FunderAddress: addrOf(funder), FundValue: value}
	return harness.NewTx(action.PROPOSAL_FUND, &msg, memo, signersOr(signers, funder)...)
}

// ProposalVote builds PROPOSAL_VOTE. Required signers, in order: Address (any account, pays the fee),
// ValidatorAddress (the validator key).
func ProposalVote(id governance.ProposalID, voter *harness.Account, validator *harness.Account, opinion governance.VoteOpinion, memo string, signers ...*harness.Account) *harness.TxSpec {
	msg := &govact.VoteProposal{ProposalID: id, Address: addrOf(voter), ValidatorAddress: addrOf(validator), Opinion: opinion}
	return harness.NewTx(action.PROPOSAL_VOTE, msg, memo, signersOr(signers, voter, validator)...)
}

// ProposalCancel builds PROPOSAL_CANCEL. Required signer: Proposer.
func ProposalCancel(id governance.ProposalID, proposer *harness.Account, reason string, memo string, signers ...*harness.Account) *harness.TxSpec {
	msg := &govact.CancelProposal{ProposalId: id, Proposer: addrOf(proposer), Reason: reason}
	return harness.NewTx(action.PROPOSAL_CANCEL, msg, memo, signersOr(signers, proposer)...)
}

// ProposalWithdrawFunds builds PROPOSAL_WITHDRAW_FUNDS. Required signer: Funder.
func ProposalWithdrawFunds(id governance.ProposalID, funder *harness.Account, value action.Amount, beneficiary keys.Address, memo string, signers ...*harness.Account) *harness.TxSpec {
	msg := govact.WithdrawFunds{ProposalID: id, Funder: addrOf(funder), WithdrawValue: value, Beneficiary: beneficiary}
	return harness.NewTx(action.PROPOSAL_WITHDRAW_FUNDS, &msg, memo, signersOr(signers, funder)...)
}

// ExpireVotes builds EXPIRE_VOTES as a user-submitted transaction. Required signer: ValidatorAddress
// (the handler never checks that it is a validator).
func ExpireVotes(id governance.ProposalID, validator *harness.Account, memo string, signers ...*harness.Account) *harness.TxSpec {
	msg := govact.ExpireVotes{ProposalID: id, ValidatorAddress: addrOf(validator)}
	return harness.NewTx(action.EXPIRE_VOTES, &msg, memo, signersOr(signers, validator)...)
}

// ProposalFinalize builds PROPOSAL_FINALIZE as a user-submitted transaction. Required signer:
// ValidatorAddress (the handler never checks that it is a validator).
func ProposalFinalize(id governance.ProposalID, validator *harness.Account, memo string, signers ...*harness.Account) *harness.TxSpec {
	msg := govact.FinalizeProposal{ProposalID: id, ValidatorAddress: addrOf(validator)}
	return harness.NewTx(action.PROPOSAL_FINALIZE, &msg, memo, signersOr(signers, validator)...)
}

// ---------------------------------------------------------------------------------------------
// ONS
// ---------------------------------------------------------------------------------------------

// DomainCreate builds DOMAIN_CREATE. Required signer: Owner.
func DomainCreate(owner *harness.Account, beneficiary keys.Address, name string, uri string, buyingPrice action.Amount, memo string, signers ...*harness.Account) *harness.TxSpec {
	msg := onsact.DomainCreate{Owner: addrOf(owner), Beneficiary: beneficiary, Name: ons.Name(name), Uri: uri, BuyingPrice: buyingPrice}
	return harness.NewTx(action.DOMAIN_CREATE, &msg, memo, signersOr(signers, owner)...)
}

// DomainUpdate builds DOMAIN_UPDATE. Required signer: Owner.
func DomainUpdate(owner *harness.Account, beneficiary keys.Address, name string, active bool, uri string, memo string, signers ...*harness.Account) *harness.TxSpec {
	msg := onsact.DomainUpdate{Owner: addrOf(owner), Beneficiary: beneficiary, Name: ons.Name(name), Active: active, Uri: uri}
	return harness.NewTx(action.DOMAIN_UPDATE, &msg, memo, signersOr(signers, owner)...)
}

// DomainSell builds DOMAIN_SELL (put on sale, or cancel the sale). Required signer: OwnerAddress.
func DomainSell(owner *harness.Account, name string, price action.Amount, cancelSale bool, memo string, signers ...*harness.Account) *harness.TxSpec {
	msg := onsact.DomainSale{Name: ons.Name(name), OwnerAddress: addrOf(owner), Price: price, CancelSale: cancelSale}
	return harness.NewTx(action.DOMAIN_SELL, &msg, memo, signersOr(signers, owner)...)
}

// DomainPurchase builds DOMAIN_PURCHASE. Required signer: Buyer.
func DomainPurchase(buyer *harness.Account, account keys.Address, name string, offering action.Amount, memo string, signers ...*harness.Account) *harness.TxSpec {
	msg := onsact.DomainPurchase{Name: ons.Name(name), Buyer: addrOf(buyer), Account: account, Offering: offering}
	return harness.NewTx(action.DOMAIN_PURCHASE, &msg, memo, signersOr(signers, buyer)...)
}

// DomainSend builds DOMAIN_SEND (pay the beneficiary of a domain). Required signer: From.
func DomainSend(from *harness.Account, name string, amount action.Amount, memo string, signers ...*harness.Account) *harness.TxSpec {
	msg := onsact.DomainSend{From: addrOf(from), Name: ons.Name(name), Amount: amount}
	return harness.NewTx(action.DOMAIN_SEND, &msg, memo, signersOr(signers, from)...)
}

// DomainDeleteSub builds DOMAIN_DELETE_SUB (one sub-domain, or all of them when name is a parent).
// Required signer: Owner.
func DomainDeleteSub(owner *harness.Account, name string, memo string, signers ...*harness.Account) *harness.TxSpec {
	msg := onsact.DeleteSub{Name: ons.Name(name), Owner: addrOf(owner)}
	return harness.NewTx(action.DOMAIN_DELETE_SUB, &msg, memo, signersOr(signers, owner)...)
}

// DomainRenew builds DOMAIN_RENEW. Required signer: Owner.
func DomainRenew(owner *harness.Account, name string, buyingPrice action.Amount, memo string, signers ...*harness.Account) *harness.TxSpec {
	msg := onsact.RenewDomain{Owner: addrOf(owner), Name: ons.Name(name), BuyingPrice: buyingPrice}
	return harness.NewTx(action.DOMAIN_RENEW, &msg, memo, signersOr(signers, owner)...)
}
