package gov

import (
	"fmt"

	"github.com/Oneledger/protocol/action"
	"github.com/Oneledger/protocol/data/governance"

	"verif/harness"
)

// ConfigUpdatePayload is the `key:value` string used by the config-update scenarios. Of all the keys
// registered in action/govUpdate.go only the ONS options and feeOption.minFeeDecimal validate in a
// world with small periods (the proposal/staking/evidence validators insist on main-net sized
// deadlines, maturity times and vote windows). It doubles the per-block domain fee: 1 OLT -> 2 OLT.
const ConfigUpdatePayload = "onsOptions.perBlockFees:2000000000000000000"

func olt(n int64) action.Amount { return harness.Coin("OLT", harness.OLTUnits(n)) }

func world(name string) func() *harness.World {
	return func() *harness.World { return harness.NewWorld("gov-"+name, 4, 3) }
}

func blk(txs ...*harness.TxSpec) harness.BlockSpec { return harness.BlockSpec{Txs: txs} }

func empty(n int) []harness.BlockSpec {
	var out []harness.BlockSpec
	for i := 0; i < n; i++ {
		out = append(out, harness.BlockSpec{})
	}
	return out
}

// PropOpts returns the genesis proposal options of the world for a proposal type.
func PropOpts(w *harness.World, typ governance.ProposalType) governance.ProposalOption {
	switch typ {
	case governance.ProposalTypeConfigUpdate:
		return w.Gov.PropOptions.ConfigUpdate
	case governance.ProposalTypeCodeChange:
		return w.Gov.PropOptions.CodeChange
	default:
		return w.Gov.PropOptions.General
	}
}

// ValidCreate builds a PROPOSAL_CREATE that satisfies the handler when delivered at the given height:
// initial funding == options.InitialFunding, goal/pass%% copied from the options, funding deadline =
// height + options.FundingDeadline, voting deadline field = funding deadline + options.VotingDeadline.
func ValidCreate(w *harness.World, id governance.ProposalID, typ governance.ProposalType, proposer *harness.Account, height int64, cfg string, memo string) *harness.TxSpec {
	o := PropOpts(w, typ)
	fd := height + o.FundingDeadline
	goal := *o.FundingGoal
	return ProposalCreate(id, typ, "headline "+memo, "description "+memo, proposer,
		harness.Coin("OLT", *o.InitialFunding), fd, &goal, fd+o.VotingDeadline, o.PassPercentage, cfg, memo)
}

// vote builds the vote of validator i: the stake account pays the fee, the validator key co-signs.
func vote(w *harness.World, id governance.ProposalID, i int, op governance.VoteOpinion, memo string) *harness.TxSpec {
	v := w.Vals[i]
	return ProposalVote(id, v.Stake, v.Val, op, memo)
}

// govHistory builds the canonical proposal history up to (excluding) the given stage. Heights:
//
//	1,2  empty (the validators' active-status records appear at EndBlock 2)
//	3    A creates the proposal           (funding deadline 6)
//	4    B funds 50 OLT                   (60 < goal 100)
//	5    C funds 40 OLT                   (100 >= goal: VOTING, voting deadline 8, validator snapshot)
//	6    V1 votes YES                     (3M/6M = 50 %% < 51 %%: undecided)
//	7    V2 votes YES                     (5M/6M: PASSED -> passed store)
//	8    BeginBlock queues, EndBlock runs the internal PROPOSAL_FINALIZE
const (
	hCreate = 3
	hFundB  = 4
	hFundC  = 5
	hVote1  = 6
	hVote2  = 7
)

type stage int

const (
	stCreate stage = iota // next tx: create
	stFundB               // next tx: B funds
	stFundC               // next tx: C funds (reaches the goal)
	stVote1               // next tx: first vote
	stVote2               // next tx: second vote
	stFinal               // next: finalisation block
)

func govSteps(w *harness.World, id governance.ProposalID, typ governance.ProposalType, cfg string) []*harness.TxSpec {
	A, B, C := w.Users[0], w.Users[1], w.Users[2]
	return []*harness.TxSpec{
		ValidCreate(w, id, typ, A, hCreate, cfg, "create"),
		ProposalFund(id, B, olt(50), "fundB"),
		ProposalFund(id, C, olt(40), "fundC"),
		vote(w, id, 0, governance.OPIN_POSITIVE, "vote1"),
		vote(w, id, 1, governance.OPIN_POSITIVE, "vote2"),
	}
}

// govPrefix returns the blocks 1..(height of stage)-1.
func govPrefix(w *harness.World, id governance.ProposalID, typ governance.ProposalType, cfg string, upto stage) []harness.BlockSpec {
	out := empty(2)
	steps := govSteps(w, id, typ, cfg)
	for i := 0; i < int(upto); i++ {
		out = append(out, blk(steps[i]))
	}
	return out
}

// PrefixUpToFirstVote: a general proposal created, funded to its goal and voted YES by V1 (undecided).
func PrefixUpToFirstVote(w *harness.World, id governance.ProposalID) []harness.BlockSpec {
	return govPrefix(w, id, tGeneral, "", stVote2)
}

// SecondYesVote is V2's YES vote, which decides the proposal of PrefixUpToFirstVote.
func SecondYesVote(w *harness.World, id governance.ProposalID) *harness.TxSpec {
	return govSteps(w, id, tGeneral, "")[stVote2]
}

func govScenario(kind action.Type, note string, typ governance.ProposalType, cfg string, upto stage,
	extra func(w *harness.World, id governance.ProposalID) []harness.BlockSpec,
	target func(w *harness.World, id governance.ProposalID) *harness.TxSpec, after int) *harness.Scenario {
	return govScenarioIn(world(note), kind, note, typ, cfg, upto, extra, target, after)
}

// BigWorld is the default world with main-net sized governance periods: only then do the validators
// of action/govUpdate.go accept updates of the proposal, staking and evidence options (they demand
// funding/voting deadlines >= 10000/75000/150000 blocks, maturity time >= 109200, vote window >= 1000).
// A proposal can still be funded, voted and finalised within a few blocks because the deadlines are
// upper bounds only.
func BigWorld(name string) *harness.World {
	w := harness.NewWorld("gov-big-"+name, 4, 3)
	po := &w.Gov.PropOptions
	po.ConfigUpdate.FundingDeadline, po.ConfigUpdate.VotingDeadline = 10000, 10000
	po.CodeChange.FundingDeadline, po.CodeChange.VotingDeadline = 10000, 150000
	po.General.FundingDeadline, po.General.VotingDeadline = 75000, 75000
	w.Gov.StakingOptions.MaturityTime = 109200
	w.Gov.EvidenceOptions.BlockVotesDiff = 1000
	w.Gov.EvidenceOptions.MinVotesRequired = 700
	return w
}

func bigWorld(name string) func() *harness.World {
	return func() *harness.World { return BigWorld(name) }
}

func govScenarioIn(wf func() *harness.World, kind action.Type, note string, typ governance.ProposalType, cfg string, upto stage,
	extra func(w *harness.World, id governance.ProposalID) []harness.BlockSpec,
	target func(w *harness.World, id governance.ProposalID) *harness.TxSpec, after int) *harness.Scenario {
	id := PID(note)
	return &harness.Scenario{
		Kind:  kind.String(),
		Note:  note,
		World: wf,
		Prefix: func(w *harness.World) []harness.BlockSpec {
			p := govPrefix(w, id, typ, cfg, upto)
			if extra != nil {
				p = append(p, extra(w, id)...)
			}
			return p
		},
		Target: func(w *harness.World) *harness.TxSpec { return target(w, id) },
		After:  after,
	}
}

func step(upto stage, typ governance.ProposalType, cfg string) func(w *harness.World, id governance.ProposalID) *harness.TxSpec {
	return func(w *harness.World, id governance.ProposalID) *harness.TxSpec {
		return govSteps(w, id, typ, cfg)[upto]
	}
}

const (
	tGeneral = governance.ProposalTypeGeneral
	tConfig  = governance.ProposalTypeConfigUpdate
	tCode    = governance.ProposalTypeCodeChange
)

func governanceScenarios() []*harness.Scenario {
	var out []*harness.Scenario
	add := func(s *harness.Scenario) { out = append(out, s) }

	// ---- PROPOSAL_CREATE ----
	add(govScenario(action.PROPOSAL_CREATE, "create-general", tGeneral, "", stCreate, nil, step(stCreate, tGeneral, ""), 1))
	add(govScenario(action.PROPOSAL_CREATE, "create-config-update", tConfig, ConfigUpdatePayload, stCreate, nil, step(stCreate, tConfig, ConfigUpdatePayload), 1))
	add(govScenario(action.PROPOSAL_CREATE, "create-code-change", tCode, "", stCreate, nil, step(stCreate, tCode, ""), 1))

	// ---- PROPOSAL_FUND ----
	add(govScenario(action.PROPOSAL_FUND, "fund-below-goal", tGeneral, "", stFundB, nil, step(stFundB, tGeneral, ""), 1))
	add(govScenario(action.PROPOSAL_FUND, "fund-reaching-goal", tGeneral, "", stFundC, nil, step(stFundC, tGeneral, ""), 1))
	// nobody votes: voting deadline 8 passes, BeginBlock(9) queues and EndBlock(9) runs the internal EXPIRE_VOTES
	add(govScenario(action.PROPOSAL_FUND, "fund-reaching-goal-then-votes-expire", tGeneral, "", stFundC, nil, step(stFundC, tGeneral, ""), 6))

	// ---- PROPOSAL_VOTE ----
	add(govScenario(action.PROPOSAL_VOTE, "vote-yes-undecided", tGeneral, "", stVote1, nil, step(stVote1, tGeneral, ""), 1))
	// one YES is not enough; the proposal expires with insufficient votes at EndBlock(9)
	add(govScenario(action.PROPOSAL_VOTE, "vote-yes-undecided-then-expires", tGeneral, "", stVote1, nil, step(stVote1, tGeneral, ""), 5))
	add(govScenario(action.PROPOSAL_VOTE, "vote-yes-passes-general-finalized", tGeneral, "", stVote2, nil, step(stVote2, tGeneral, ""), 3))
	add(govScenario(action.PROPOSAL_VOTE, "vote-yes-passes-config-update-finalized", tConfig, ConfigUpdatePayload, stVote2, nil, step(stVote2, tConfig, ConfigUpdatePayload), 3))
	add(govScenario(action.PROPOSAL_VOTE, "vote-yes-passes-code-change-finalized", tCode, "", stVote2, nil, step(stVote2, tCode, ""), 3))
	// other option records reachable by a config update
	for _, c := range []struct {
		note, payload string
		big           bool
	}{
		{"vote-yes-passes-config-update-fee-option", "feeOption.minFeeDecimal:10", false},
		{"vote-yes-passes-config-update-ons-base-price", "onsOptions.baseDomainPrice:5000000000000000000", false},
		{"vote-yes-passes-config-update-proposal-options-bigworld", "propOptions.general.passPercentage:60", true},
		{"vote-yes-passes-config-update-staking-options-bigworld", "stakingOptions.topValidatorCount:8", true},
		{"vote-yes-passes-config-update-evidence-options-bigworld", "evidenceOptions.penaltyBasePercentage:20", true},
	} {
		wf := world(c.note)
		if c.big {
			wf = bigWorld(c.note)
		}
		add(govScenarioIn(wf, action.PROPOSAL_VOTE, c.note, tConfig, c.payload, stVote2, nil, step(stVote2, tConfig, c.payload), 3))
	}
	// two proposals in flight: P passes at height 7 and is finalised at EndBlock(8); Q reached VOTING at
	// height 4 (deadline 7) and expires at the same EndBlock(8): both internal queues are used at once
	add(func() *harness.Scenario {
		note := "vote-passes-while-other-proposal-expires-same-endblock"
		p, q := PID(note+"-P"), PID(note+"-Q")
		return &harness.Scenario{
			Kind:  action.PROPOSAL_VOTE.String(),
			Note:  note,
			World: world(note),
			Prefix: func(w *harness.World) []harness.BlockSpec {
				A, B, C := w.Users[0], w.Users[1], w.Users[2]
				return []harness.BlockSpec{{}, {},
					blk(ValidCreate(w, p, tGeneral, A, 3, "", "createP"), ValidCreate(w, q, tGeneral, B, 3, "", "createQ")), // 3
					blk(ProposalFund(q, C, olt(90), "fundQ")), // 4: Q voting, deadline 7
					blk(ProposalFund(p, C, olt(90), "fundP")), // 5: P voting, deadline 8
					blk(vote(w, p, 0, governance.OPIN_POSITIVE, "vote1P"), vote(w, q, 2, governance.OPIN_POSITIVE, "vote3Q")), // 6
				}
			},
			Target: func(w *harness.World) *harness.TxSpec { return vote(w, p, 1, governance.OPIN_POSITIVE, "vote2P") }, // 7
			After:  3,
		}
	}())
	// V1 holds 50 % of the snapshot power: 1 - 0.5 < 0.51, a single NO fails the proposal
	add(govScenario(action.PROPOSAL_VOTE, "vote-no-fails-finalized", tGeneral, "", stVote1, nil,
		func(w *harness.World, id governance.ProposalID) *harness.TxSpec {
			return vote(w, id, 0, governance.OPIN_NEGATIVE, "vote-no")
		}, 3))
	// V3 gives up (power leaves the denominator), then V1's YES is 3M/5M = 60 % -> passes
	add(govScenario(action.PROPOSAL_VOTE, "vote-yes-passes-after-giveup", tGeneral, "", stVote1,
		func(w *harness.World, id governance.ProposalID) []harness.BlockSpec {
			return []harness.BlockSpec{blk(vote(w, id, 2, governance.OPIN_GIVEUP, "giveup"))}
		},
		func(w *harness.World, id governance.ProposalID) *harness.TxSpec {
			return vote(w, id, 0, governance.OPIN_POSITIVE, "vote-yes")
		}, 3))
	add(govScenario(action.PROPOSAL_VOTE, "vote-giveup-undecided", tGeneral, "", stVote1, nil,
		func(w *harness.World, id governance.ProposalID) *harness.TxSpec {
			return vote(w, id, 2, governance.OPIN_GIVEUP, "giveup")
		}, 1))
	// a validator changes its mind: V1 YES (prefix), then V1 NO -> fails
	add(govScenario(action.PROPOSAL_VOTE, "vote-changed-yes-to-no-fails", tGeneral, "", stVote2, nil,
		func(w *harness.World, id governance.ProposalID) *harness.TxSpec {
			return vote(w, id, 0, governance.OPIN_NEGATIVE, "revote-no")
		}, 3))

	// ---- PROPOSAL_CANCEL ----
	add(govScenario(action.PROPOSAL_CANCEL, "cancel-during-funding", tGeneral, "", stFundC, nil,
		func(w *harness.World, id governance.ProposalID) *harness.TxSpec {
			return ProposalCancel(id, w.Users[0], "changed my mind", "cancel")
		}, 2))
	add(govScenario(action.PROPOSAL_CANCEL, "cancel-right-after-create-no-reason", tConfig, ConfigUpdatePayload, stFundB, nil,
		func(w *harness.World, id governance.ProposalID) *harness.TxSpec {
			return ProposalCancel(id, w.Users[0], "", "cancel")
		}, 1))

	// ---- PROPOSAL_WITHDRAW_FUNDS ----
	cancelBlock := func(w *harness.World, id governance.ProposalID) []harness.BlockSpec {
		return []harness.BlockSpec{blk(ProposalCancel(id, w.Users[0], "cancelled", "cancel"))}
	}
	add(govScenario(action.PROPOSAL_WITHDRAW_FUNDS, "withdraw-after-cancel", tGeneral, "", stFundC, cancelBlock,
		func(w *harness.World, id governance.ProposalID) *harness.TxSpec {
			B := w.Users[1]
			return ProposalWithdrawFunds(id, B, olt(50), B.Addr, "withdrawB")
		}, 1))
	add(govScenario(action.PROPOSAL_WITHDRAW_FUNDS, "withdraw-partial-to-third-party-after-cancel", tGeneral, "", stFundC, cancelBlock,
		func(w *harness.World, id governance.ProposalID) *harness.TxSpec {
			return ProposalWithdrawFunds(id, w.Users[1], olt(20), w.Users[2].Addr, "withdrawB-partial")
		}, 1))
	// funding deadline 6 missed with 60 < 100 OLT: the first withdrawal moves the proposal to
	// failed/INSUFFICIENT_FUNDS. DeliverTx would accept it at height 7, but CheckTx evaluates the rule
	// against the header of the previous block, so the earliest admissible block is height 8.
	add(govScenario(action.PROPOSAL_WITHDRAW_FUNDS, "withdraw-after-funding-deadline-missed", tGeneral, "", stFundC,
		func(w *harness.World, id governance.ProposalID) []harness.BlockSpec { return empty(3) },
		func(w *harness.World, id governance.ProposalID) *harness.TxSpec {
			B := w.Users[1]
			return ProposalWithdrawFunds(id, B, olt(50), B.Addr, "withdrawB")
		}, 1))
	// second withdrawal on the same proposal: outcome already INSUFFICIENT_FUNDS
	add(govScenario(action.PROPOSAL_WITHDRAW_FUNDS, "withdraw-proposer-after-insufficient-funds", tGeneral, "", stFundC,
		func(w *harness.World, id governance.ProposalID) []harness.BlockSpec {
			B := w.Users[1]
			return append(empty(3), blk(ProposalWithdrawFunds(id, B, olt(50), B.Addr, "withdrawB")))
		},
		func(w *harness.World, id governance.ProposalID) *harness.TxSpec {
			A := w.Users[0]
			return ProposalWithdrawFunds(id, A, olt(10), A.Addr, "withdrawA")
		}, 1))

	// ---- EXPIRE_VOTES submitted by an ordinary account through the public router ----
	// voting deadline 8 passed; the user's tx at height 9 runs before the internal one of EndBlock(9)
	add(govScenario(action.EXPIRE_VOTES, "user-expire-after-voting-deadline", tGeneral, "", stVote1,
		func(w *harness.World, id governance.ProposalID) []harness.BlockSpec { return empty(3) },
		func(w *harness.World, id governance.ProposalID) *harness.TxSpec {
			return ExpireVotes(id, w.Users[2], "user-expire")
		}, 2))
	// the handler checks neither status nor deadline nor signer: anybody can kill a proposal that is
	// still being voted on ...
	add(govScenario(action.EXPIRE_VOTES, "user-expire-during-voting-before-deadline", tGeneral, "", stVote1, nil,
		func(w *harness.World, id governance.ProposalID) *harness.TxSpec {
			return ExpireVotes(id, w.Users[2], "user-expire")
		}, 2))
	// ... or one that is still being funded
	add(govScenario(action.EXPIRE_VOTES, "user-expire-during-funding", tGeneral, "", stFundC, nil,
		func(w *harness.World, id governance.ProposalID) *harness.TxSpec {
			return ExpireVotes(id, w.Users[2], "user-expire")
		}, 2))

	// ---- PROPOSAL_FINALIZE submitted by an ordinary account through the public router ----
	// passed at height 7; the user's tx at height 8 runs before the internal one of EndBlock(8)
	add(govScenario(action.PROPOSAL_FINALIZE, "user-finalize-passed-general", tGeneral, "", stFinal, nil,
		func(w *harness.World, id governance.ProposalID) *harness.TxSpec {
			return ProposalFinalize(id, w.Users[2], "user-finalize")
		}, 2))
	add(govScenario(action.PROPOSAL_FINALIZE, "user-finalize-passed-config-update", tConfig, ConfigUpdatePayload, stFinal, nil,
		func(w *harness.World, id governance.ProposalID) *harness.TxSpec {
			return ProposalFinalize(id, w.Users[2], "user-finalize")
		}, 2))
	// a name is renewed in the very block whose END finalises a passed change of the per-block price (the
	// renewal must still be computed with the old price); a stranger's PROPOSAL_FINALIZE for that proposal
	// follows one block later (a no-op by then). With every transaction of the history also sent to CheckTx in
	// every gap (C07), the finalize is CHECKED before the renewal is DELIVERED: whatever a mempool check of it
	// leaves behind in memory must not reach the renewal. (Added after a seeded change - the renewal reading
	// the options cached on the shared domain store - escaped all histories.)
	add(func() *harness.Scenario {
		id := PID("renew-before-price-change")
		name := "renewme.ol"
		return &harness.Scenario{
			Kind:  action.PROPOSAL_FINALIZE.String(),
			Note:  "multi-user-finalize-noop-after-renewal-in-the-block-whose-end-applied-the-price-change",
			World: world("renew-before-price-change"),
			Prefix: func(w *harness.World) []harness.BlockSpec {
				p := govPrefix(w, id, tConfig, ConfigUpdatePayload, stFinal)
				A := w.Users[0]
				p[1].Txs = append(p[1].Txs, DomainCreate(A, A.Addr, name, "", olt(60), "rn-create"))
				return append(p, blk(DomainRenew(A, name, olt(7), "rn-renew")))
			},
			Target: func(w *harness.World) *harness.TxSpec { return ProposalFinalize(id, w.Users[2], "user-finalize-late") },
			After:  2,
		}
	}())
	// a FEE-OPTION change has passed; in the block whose end applies it a SEND pays exactly the old minimum price;
	// a stranger's finalize comes later (a no-op then). The mempool-isolation check sends a copy of that finalize
	// to CheckTx in every gap - also while the proposal is passed but not yet finalised: its check path must not
	// touch the fee options that block execution validates every fee against. (Added after a sub-agent's remark
	// about the unchanged tree: the finalize check APPLIED the update to the option copies kept in memory.)
	add(func() *harness.Scenario {
		id := PID("fee-change")
		return &harness.Scenario{
			Kind:  action.PROPOSAL_FINALIZE.String(),
			Note:  "multi-user-finalize-noop-after-a-fee-change-was-applied-in-a-block-with-a-minimum-fee-send",
			World: world("fee-change"),
			Prefix: func(w *harness.World) []harness.BlockSpec {
				p := govPrefix(w, id, tConfig, "feeOption.minFeeDecimal:8", stFinal)
				return append(p, blk(harness.Send(w.Users[0], w.Users[1].Addr, harness.Coin("OLT", harness.OLTUnits(1)), "min-fee-send")))
			},
			Target: func(w *harness.World) *harness.TxSpec { return ProposalFinalize(id, w.Users[2], "user-finalize-late") },
			After:  2,
		}
	}())
	add(govScenario(action.PROPOSAL_FINALIZE, "user-finalize-failed-proposal", tGeneral, "", stVote1,
		func(w *harness.World, id governance.ProposalID) []harness.BlockSpec {
			return []harness.BlockSpec{blk(vote(w, id, 0, governance.OPIN_NEGATIVE, "vote-no"))}
		},
		func(w *harness.World, id governance.ProposalID) *harness.TxSpec {
			return ProposalFinalize(id, w.Users[2], "user-finalize")
		}, 2))
	return out
}

// ---------------------------------------------------------------------------------------------
// ONS
// ---------------------------------------------------------------------------------------------

func onsScenario(kind action.Type, note string, prefix func(w *harness.World) []harness.BlockSpec,
	target func(w *harness.World) *harness.TxSpec, after int) *harness.Scenario {
	return &harness.Scenario{
		Kind:  kind.String(),
		Note:  note,
		World: world(note),
		Prefix: func(w *harness.World) []harness.BlockSpec {
			p := empty(1)
			if prefix != nil {
				p = append(p, prefix(w)...)
			}
			return p
		},
		Target: target,
		After:  after,
	}
}

func onsScenarios() []*harness.Scenario {
	var out []*harness.Scenario
	add := func(s *harness.Scenario) { out = append(out, s) }

	// creation helpers: a.ol owned by A living `life` blocks (price = base 10 + life x 1 OLT)
	createA := func(w *harness.World, life int64, memo string) *harness.TxSpec {
		A := w.Users[0]
		return DomainCreate(A, A.Addr, "a.ol", "http://a.example", olt(10+life), memo)
	}
	createSub := func(w *harness.World, name string) *harness.TxSpec {
		A := w.Users[0]
		return DomainCreate(A, w.Users[1].Addr, name, "", olt(11), "create-"+name)
	}
	withA := func(life int64, more ...func(w *harness.World) *harness.TxSpec) func(w *harness.World) []harness.BlockSpec {
		return func(w *harness.World) []harness.BlockSpec {
			// CheckTx runs against the header of the PREVIOUS block, and a domain is only changeable
			// one block after its last change: every change is followed by a spare block
			p := []harness.BlockSpec{blk(createA(w, life, "create-a")), {}}
			for _, m := range more {
				if m == nil {
					p = append(p, harness.BlockSpec{})
				} else {
					p = append(p, blk(m(w)), harness.BlockSpec{})
				}
			}
			return p
		}
	}
	subB := func(w *harness.World) *harness.TxSpec { return createSub(w, "b.a.ol") }
	subC := func(w *harness.World) *harness.TxSpec { return createSub(w, "c.a.ol") }
	sell50 := func(w *harness.World) *harness.TxSpec { return DomainSell(w.Users[0], "a.ol", olt(50), false, "sell") }

	// ---- DOMAIN_CREATE ----
	add(onsScenario(action.DOMAIN_CREATE, "create-a.ol", nil,
		func(w *harness.World) *harness.TxSpec { return createA(w, 20, "create-a") }, 1))
	add(onsScenario(action.DOMAIN_CREATE, "create-sub-b.a.ol", withA(20), subB, 1))
	// 2 blocks of life: the name is expired a few blocks later (expiry is evaluated lazily)
	add(onsScenario(action.DOMAIN_CREATE, "create-short-lived-then-expires", nil,
		func(w *harness.World) *harness.TxSpec { return createA(w, 2, "create-a") }, 5))
	add(onsScenario(action.DOMAIN_CREATE, "create-no-beneficiary-no-uri", nil,
		func(w *harness.World) *harness.TxSpec {
			return DomainCreate(w.Users[1], nil, "bob.ol", "", olt(15), "create-bob")
		}, 1))

	// ---- DOMAIN_UPDATE ----
	add(onsScenario(action.DOMAIN_UPDATE, "update-beneficiary-and-uri", withA(20),
		func(w *harness.World) *harness.TxSpec {
			return DomainUpdate(w.Users[0], w.Users[1].Addr, "a.ol", true, "http://new.example", "update")
		}, 1))
	add(onsScenario(action.DOMAIN_UPDATE, "update-deactivate-with-subdomains", withA(20, subB, subC),
		func(w *harness.World) *harness.TxSpec {
			A := w.Users[0]
			return DomainUpdate(A, A.Addr, "a.ol", false, "", "deactivate")
		}, 1))
	add(onsScenario(action.DOMAIN_UPDATE, "update-subdomain", withA(20, subB),
		func(w *harness.World) *harness.TxSpec {
			return DomainUpdate(w.Users[0], w.Users[2].Addr, "b.a.ol", true, "", "update-sub")
		}, 1))

	// ---- DOMAIN_SELL ----
	add(onsScenario(action.DOMAIN_SELL, "put-on-sale", withA(20), sell50, 1))
	add(onsScenario(action.DOMAIN_SELL, "cancel-sale", withA(20, sell50),
		func(w *harness.World) *harness.TxSpec {
			return DomainSell(w.Users[0], "a.ol", olt(50), true, "cancel-sale")
		}, 1))

	// ---- DOMAIN_PURCHASE ----
	add(onsScenario(action.DOMAIN_PURCHASE, "purchase-on-sale-above-price", withA(20, sell50),
		func(w *harness.World) *harness.TxSpec {
			B := w.Users[1]
			return DomainPurchase(B, B.Addr, "a.ol", olt(55), "purchase")
		}, 1))
	add(onsScenario(action.DOMAIN_PURCHASE, "purchase-on-sale-exact-price-drops-subdomains", withA(20, subB, sell50),
		func(w *harness.World) *harness.TxSpec {
			B := w.Users[1]
			return DomainPurchase(B, w.Users[2].Addr, "a.ol", olt(50), "purchase")
		}, 1))
	// a.ol lives 2 blocks; four blocks later a stranger buys the expired name on the base-price path
	add(onsScenario(action.DOMAIN_PURCHASE, "purchase-expired-by-stranger", withA(2, nil, nil, nil),
		func(w *harness.World) *harness.TxSpec {
			C := w.Users[2]
			return DomainPurchase(C, C.Addr, "a.ol", olt(15), "purchase-expired")
		}, 1))

	// ---- DOMAIN_SEND ----
	add(onsScenario(action.DOMAIN_SEND, "send-to-domain",
		func(w *harness.World) []harness.BlockSpec {
			A := w.Users[0]
			return []harness.BlockSpec{blk(DomainCreate(A, w.Users[1].Addr, "a.ol", "", olt(30), "create-a")), {}}
		},
		func(w *harness.World) *harness.TxSpec { return DomainSend(w.Users[2], "a.ol", olt(7), "send") }, 1))
	add(onsScenario(action.DOMAIN_SEND, "send-to-subdomain", withA(20, subB),
		func(w *harness.World) *harness.TxSpec { return DomainSend(w.Users[2], "b.a.ol", olt(3), "send-sub") }, 1))
	add(onsScenario(action.DOMAIN_SEND, "send-eth-to-domain", withA(20),
		func(w *harness.World) *harness.TxSpec {
			return DomainSend(w.Users[2], "a.ol", harness.Coin("ETH", harness.Amt("1000000000000000000")), "send-eth")
		}, 1))

	// ---- DOMAIN_RENEW ----
	add(onsScenario(action.DOMAIN_RENEW, "renew", withA(20),
		func(w *harness.World) *harness.TxSpec { return DomainRenew(w.Users[0], "a.ol", olt(5), "renew") }, 1))
	add(onsScenario(action.DOMAIN_RENEW, "renew-extends-subdomains", withA(20, subB, subC),
		func(w *harness.World) *harness.TxSpec { return DomainRenew(w.Users[0], "a.ol", olt(9), "renew") }, 1))

	// ---- DOMAIN_DELETE_SUB ----
	add(onsScenario(action.DOMAIN_DELETE_SUB, "delete-one-sub", withA(20, subB, subC),
		func(w *harness.World) *harness.TxSpec { return DomainDeleteSub(w.Users[0], "b.a.ol", "delete-sub") }, 1))
	add(onsScenario(action.DOMAIN_DELETE_SUB, "delete-all-subs", withA(20, subB, subC),
		func(w *harness.World) *harness.TxSpec { return DomainDeleteSub(w.Users[0], "a.ol", "delete-all") }, 1))
	return out
}

// crossScenarios mixes both halves: a passed config-update proposal changes the ONS options record,
// afterwards a domain is created under the new per-block fee.
func crossScenarios() []*harness.Scenario {
	note := "create-after-ons-fee-raised-by-proposal"
	id := PID(note)
	return []*harness.Scenario{{
		Kind:  action.DOMAIN_CREATE.String(),
		Note:  note,
		World: world(note),
		Prefix: func(w *harness.World) []harness.BlockSpec {
			p := govPrefix(w, id, tConfig, ConfigUpdatePayload, stFinal)
			return append(p, empty(2)...) // height 8 finalises, 9 spare
		},
		Target: func(w *harness.World) *harness.TxSpec {
			A := w.Users[0]
			// 10 base + 20 OLT: 10 blocks of life at the new fee of 2 OLT per block
			return DomainCreate(A, A.Addr, "a.ol", "", olt(30), "create-a")
		},
		After: 1,
	}}
}

// Scenarios is the history catalogue of the governance and ONS transaction kinds.
func Scenarios() []*harness.Scenario {
	var out []*harness.Scenario
	out = append(out, governanceScenarios()...)
	out = append(out, onsScenarios()...)
	out = append(out, crossScenarios()...)
	seen := map[string]bool{}
	for _, s := range out {
		k := s.Kind + "/" + s.Note
		if seen[k] {
			panic(fmt.Sprintf("duplicate scenario %s", k))
		}
		seen[k] = true
	}
	return out
}
