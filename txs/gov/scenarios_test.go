package gov

import (
	"bytes"
	"os"
	"sort"
	"strings"
	"testing"

	"verif/harness"
)

// fd1 is the *os.File of file descriptor 1, which harness.SilenceStdout points at /dev/null.
var fd1 = os.Stdout

// TestMain: the application logs to fd 1 (package-level loggers) and to whatever os.Stdout is when an
// app instance is built. The testing package captures os.Stdout once, when m.Run starts. So: silence
// fd 1, let testing capture the preserved real stdout, and have every test switch os.Stdout back to
// the silenced fd 1 while it runs (quiet).
func TestMain(m *testing.M) {
	harness.SilenceStdout()
	os.Stdout = harness.Out()
	code := m.Run()
	harness.RemoveScratch()
	os.Exit(code)
}

func quiet(t *testing.T) {
	harness.SilenceStdout()
	os.Stdout = fd1
	t.Cleanup(func() { os.Stdout = harness.Out() })
}

// relevant lists, per kind, the key prefixes one of which must change in the target's block.
var relevant = map[string][]string{
	"PROPOSAL_CREATE":         {"propActive", "propFunds"},
	"PROPOSAL_FUND":           {"propFunds"},
	"PROPOSAL_VOTE":           {"propVotes"},
	"PROPOSAL_CANCEL":         {"propFailed"},
	"PROPOSAL_WITHDRAW_FUNDS": {"propFunds"},
	"EXPIRE_VOTES":            {"propFailed"},
	"PROPOSAL_FINALIZE":       {"propFinalized"},
	"DOMAIN_CREATE":           {"d_"},
	"DOMAIN_UPDATE":           {"d_"},
	"DOMAIN_SELL":             {"d_"},
	"DOMAIN_PURCHASE":         {"d_"},
	"DOMAIN_SEND":             {"b_"}, // minus the fee payer's own balance key, see below
	"DOMAIN_DELETE_SUB":       {"d_"},
	"DOMAIN_RENEW":            {"d_"},
}

func dumpMap(d []harness.KV) map[string][]byte {
	m := make(map[string][]byte, len(d))
	for _, kv := range d {
		m[string(kv.K)] = kv.V
	}
	return m
}

// changedKeys returns the sorted list of keys added, removed or modified between two dumps.
func changedKeys(a, b []harness.KV) []string {
	ma, mb := dumpMap(a), dumpMap(b)
	var out []string
	for k, v := range ma {
		w, ok := mb[k]
		if !ok || !bytes.Equal(v, w) {
			out = append(out, k)
		}
	}
	for k := range mb {
		if _, ok := ma[k]; !ok {
			out = append(out, k)
		}
	}
	sort.Strings(out)
	return out
}

func printable(k string) string {
	var sb strings.Builder
	for _, c := range []byte(k) {
		if c >= 0x20 && c < 0x7f {
			sb.WriteByte(c)
		} else {
			sb.WriteString("\\x" + string("0123456789abcdef"[c>>4]) + string("0123456789abcdef"[c&15]))
		}
	}
	return sb.String()
}

func TestScenarios(t *testing.T) {
	quiet(t)
	defer harness.RemoveScratch()
	verbose := os.Getenv("GOV_VERBOSE") != ""
	for _, sc := range Scenarios() {
		sc := sc
		t.Run(sc.Kind+"/"+sc.Note, func(t *testing.T) {
			// 1. the canonical run
			x, chk, dlv, err := harness.RunScenario(sc)
			if x != nil {
				defer x.Close()
			}
			if err != nil {
				t.Fatalf("RunScenario: %v", err)
			}
			if sc.Kind == "EXPIRE_VOTES" && strings.HasPrefix(sc.Note, "user-expire-") && chk.Code != 0 {
				// characterised "a user can expire a proposal at any time" on the pinned tree; repaired since
				// (the handler checks stage and deadline): these histories remain as states with a REJECTED target
				t.Skipf("user-sent EXPIRE_VOTES is refused since the repair: %s", chk.Log)
			}
			if chk.Code != 0 {
				t.Fatalf("target CheckTx code=%d log=%s", chk.Code, chk.Log)
			}
			if dlv.Code != 0 {
				t.Fatalf("target DeliverTx code=%d log=%s", dlv.Code, dlv.Log)
			}
			if x.R.Dead {
				t.Fatalf("application died during the scenario")
			}
			// delayed effects promised by the scenario's name must be visible at the end of the run
			final := x.R.Dump()
			has := func(prefix string) bool {
				for _, kv := range final {
					if strings.HasPrefix(string(kv.K), prefix) {
						return true
					}
				}
				return false
			}
			if strings.Contains(sc.Note, "finalize") {
				if !has("propFinalized") {
					t.Fatalf("no finalized proposal at the end of the run")
				}
				if strings.Contains(sc.Note, "same-endblock") {
					if !has("propFailed") {
						t.Fatalf("second proposal did not expire")
					}
				} else if has("propFunds_i_") { // the total record stays, set to 0
					t.Fatalf("proposal funds not distributed at the end of the run")
				}
			}
			if !strings.HasPrefix(sc.Kind, "DOMAIN") && strings.Contains(sc.Note, "expire") && !has("propFailed") {
				t.Fatalf("no failed (expired) proposal at the end of the run")
			}
			want := relevant[sc.Kind]
			if want == nil {
				t.Fatalf("no relevant key prefixes registered for kind %s", sc.Kind)
			}

			// 2. a second run, stepping by hand, to see what the target's block changes
			w := sc.World()
			y, err := harness.StartRun(w)
			if err != nil {
				t.Fatalf("StartRun: %v", err)
			}
			defer y.Close()
			if sc.Prefix != nil {
				for i, b := range sc.Prefix(w) {
					if _, err := y.Block(b); err != nil {
						t.Fatalf("second run prefix block %d: %v", i+1, err)
					}
				}
			}
			before := y.R.Dump()
			tgt := sc.Target(w)
			res, err := y.Block(harness.BlockSpec{Txs: []*harness.TxSpec{tgt}})
			if err != nil {
				t.Fatalf("second run target block: %v", err)
			}
			if res.Txs[0].Code != 0 {
				t.Fatalf("second run target DeliverTx code=%d log=%s", res.Txs[0].Code, res.Txs[0].Log)
			}
			after := y.R.Dump()
			payerKey := ""
			if len(tgt.Signers) > 0 {
				payerKey = "b_" + tgt.Signers[0].Addr.String() + "_OLT"
			}
			found := false
			var ch []string
			for _, k := range changedKeys(before, after) {
				ch = append(ch, printable(k))
				if k == payerKey {
					continue
				}
				for _, p := range want {
					if strings.HasPrefix(k, p) {
						found = true
					}
				}
			}
			if verbose {
				t.Logf("height %d changed keys: %s", res.Height, strings.Join(ch, " | "))
			}
			if strings.Contains(sc.Note, "-noop-") {
				found = true // the target is a deliberate no-op (the history before it is the point)
			}
			if !found {
				t.Fatalf("target block changed no key with prefix %v; changed: %s", want, strings.Join(ch, " | "))
			}
			// delayed effects
			if verbose && sc.After > 0 {
				prev := after
				for i := 0; i < sc.After; i++ {
					r, err := y.Block(harness.BlockSpec{})
					if err != nil {
						t.Fatalf("after block: %v", err)
					}
					cur := y.R.Dump()
					var c2 []string
					for _, k := range changedKeys(prev, cur) {
						c2 = append(c2, printable(k))
					}
					t.Logf("  after h=%d changed: %s", r.Height, strings.Join(c2, " | "))
					prev = cur
				}
			}
		})
	}
}
