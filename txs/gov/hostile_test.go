package gov

import (
	"fmt"
	"testing"

	"github.com/Oneledger/protocol/action"
	"github.com/Oneledger/protocol/data/balance"
	"github.com/Oneledger/protocol/data/governance"

	"verif/harness"
)

// hostileCase is one malformed / malicious transaction thrown at a state in which a well-formed
// transaction of the same kind would be meaningful.
type hostileCase struct {
	ctor   string // constructor under test
	name   string
	prefix func(w *harness.World) []harness.BlockSpec
	tx     func(w *harness.World) *harness.TxSpec
}

func xxx(n int64) action.Amount { return harness.Coin("XXX", harness.OLTUnits(n)) }
func neg(n int64) action.Amount {
	return harness.Coin("OLT", harness.Amt(fmt.Sprintf("-%d000000000000000000", n)))
}
func huge() action.Amount {
	return harness.Coin("OLT", harness.Amt("1000000000000000000000000000000000000000000000000000000000000"))
}

func hostileCases() []hostileCase {
	hid := PID("hostile")
	gen := governance.ProposalTypeGeneral

	gPre := func(upto stage, more ...func(w *harness.World) *harness.TxSpec) func(w *harness.World) []harness.BlockSpec {
		return func(w *harness.World) []harness.BlockSpec {
			p := govPrefix(w, hid, gen, "", upto)
			for _, m := range more {
				p = append(p, blk(m(w)))
			}
			return p
		}
	}
	cancel := func(w *harness.World) *harness.TxSpec { return ProposalCancel(hid, w.Users[0], "x", "cancel") }
	gCreate, gFund, gVote, gPass := gPre(stCreate), gPre(stFundC), gPre(stVote1), gPre(stFinal)
	gCancelled := gPre(stFundC, cancel)

	oPre := func(more ...func(w *harness.World) *harness.TxSpec) func(w *harness.World) []harness.BlockSpec {
		return func(w *harness.World) []harness.BlockSpec {
			A := w.Users[0]
			p := []harness.BlockSpec{{}, blk(DomainCreate(A, A.Addr, "a.ol", "", olt(30), "create-a")), {}}
			for _, m := range more {
				p = append(p, blk(m(w)), harness.BlockSpec{})
			}
			return p
		}
	}
	oNone := func(w *harness.World) []harness.BlockSpec { return empty(1) }
	oA := oPre()
	oSale := oPre(func(w *harness.World) *harness.TxSpec { return DomainSell(w.Users[0], "a.ol", olt(50), false, "sell") })
	oSub := oPre(func(w *harness.World) *harness.TxSpec {
		return DomainCreate(w.Users[0], w.Users[1].Addr, "b.a.ol", "", olt(11), "create-sub")
	})

	// a create with everything valid except what mod changes
	create := func(w *harness.World, mod func(c *createArgs)) *harness.TxSpec {
		o := PropOpts(w, gen)
		goal := *o.FundingGoal
		c := &createArgs{id: PID("hostile-new"), typ: gen, proposer: w.Users[0], funding: harness.Coin("OLT", *o.InitialFunding),
			fd: hCreate + o.FundingDeadline, goal: &goal, vd: hCreate + o.FundingDeadline + o.VotingDeadline, pass: o.PassPercentage}
		mod(c)
		return ProposalCreate(c.id, c.typ, "h", "d", c.proposer, c.funding, c.fd, c.goal, c.vd, c.pass, c.cfg, "hostile", c.signers...)
	}
	cfgCase := func(payload string) func(w *harness.World) *harness.TxSpec {
		return func(w *harness.World) *harness.TxSpec {
			return create(w, func(c *createArgs) {
				o := PropOpts(w, governance.ProposalTypeConfigUpdate)
				c.typ, c.cfg = governance.ProposalTypeConfigUpdate, payload
				c.funding = harness.Coin("OLT", *o.InitialFunding)
			})
		}
	}

	U := func(w *harness.World, i int) *harness.Account { return w.Users[i] }
	var hc []hostileCase
	add := func(ctor, name string, prefix func(w *harness.World) []harness.BlockSpec, tx func(w *harness.World) *harness.TxSpec) {
		hc = append(hc, hostileCase{ctor, name, prefix, tx})
	}

	// ---- ProposalCreate ----
	add("ProposalCreate", "unknown-currency", gCreate, func(w *harness.World) *harness.TxSpec {
		return create(w, func(c *createArgs) { c.funding = xxx(10) })
	})
	add("ProposalCreate", "negative-funding", gCreate, func(w *harness.World) *harness.TxSpec {
		return create(w, func(c *createArgs) { c.funding = neg(10) })
	})
	add("ProposalCreate", "huge-funding", gCreate, func(w *harness.World) *harness.TxSpec {
		return create(w, func(c *createArgs) { c.funding = huge() })
	})
	add("ProposalCreate", "third-party-proposer", gCreate, func(w *harness.World) *harness.TxSpec {
		return create(w, func(c *createArgs) { c.proposer = U(w, 1); c.signers = []*harness.Account{U(w, 2)} })
	})
	add("ProposalCreate", "nil-funding-goal", gCreate, func(w *harness.World) *harness.TxSpec {
		return create(w, func(c *createArgs) { c.goal = nil })
	})
	add("ProposalCreate", "unknown-proposal-type", gCreate, func(w *harness.World) *harness.TxSpec {
		return create(w, func(c *createArgs) { c.typ = governance.ProposalType(0x99) })
	})
	add("ProposalCreate", "empty-proposal-id", gCreate, func(w *harness.World) *harness.TxSpec {
		return create(w, func(c *createArgs) { c.id = "" })
	})
	add("ProposalCreate", "nil-proposer-signed-by-stranger", gCreate, func(w *harness.World) *harness.TxSpec {
		return create(w, func(c *createArgs) { c.proposer = AddrOnly(nil); c.signers = []*harness.Account{U(w, 2)} })
	})
	add("ProposalCreate", "no-signatures", gCreate, func(w *harness.World) *harness.TxSpec {
		t := create(w, func(c *createArgs) {})
		t.Signers = nil
		return t
	})
	add("ProposalCreate", "config-three-parts", gCreate, cfgCase("a:b:c"))
	add("ProposalCreate", "config-unknown-key", gCreate, cfgCase("rewardOptions.rewardInterval:1"))
	add("ProposalCreate", "config-negative-ons-fee", gCreate, cfgCase("onsOptions.perBlockFees:-5"))
	add("ProposalCreate", "config-non-numeric", gCreate, cfgCase("onsOptions.perBlockFees:abc"))
	add("ProposalCreate", "config-int-overflow", gCreate, cfgCase("feeOption.minFeeDecimal:99999999999999999999"))
	add("ProposalCreate", "config-prop-option-small-world", gCreate, cfgCase("propOptions.general.passPercentage:60"))

	// ---- ProposalFund ----
	add("ProposalFund", "unknown-currency", gFund, func(w *harness.World) *harness.TxSpec {
		return ProposalFund(hid, U(w, 2), xxx(40), "hostile")
	})
	add("ProposalFund", "negative-amount", gFund, func(w *harness.World) *harness.TxSpec {
		return ProposalFund(hid, U(w, 2), neg(40), "hostile")
	})
	add("ProposalFund", "huge-amount", gFund, func(w *harness.World) *harness.TxSpec {
		return ProposalFund(hid, U(w, 2), huge(), "hostile")
	})
	add("ProposalFund", "third-party-funder", gFund, func(w *harness.World) *harness.TxSpec {
		return ProposalFund(hid, U(w, 1), olt(40), "hostile", U(w, 2))
	})
	add("ProposalFund", "unknown-proposal", gFund, func(w *harness.World) *harness.TxSpec {
		return ProposalFund(PID("nope"), U(w, 2), olt(40), "hostile")
	})

	// ---- ProposalVote ----
	add("ProposalVote", "opinion-out-of-range", gVote, func(w *harness.World) *harness.TxSpec {
		return vote(w, hid, 0, governance.VoteOpinion(7), "hostile")
	})
	add("ProposalVote", "opinion-negative", gVote, func(w *harness.World) *harness.TxSpec {
		return vote(w, hid, 0, governance.VoteOpinion(-1), "hostile")
	})
	add("ProposalVote", "third-party-validator", gVote, func(w *harness.World) *harness.TxSpec {
		C := U(w, 2)
		return ProposalVote(hid, C, w.Vals[0].Val, governance.OPIN_NEGATIVE, "hostile", C, C)
	})
	add("ProposalVote", "non-validator-as-validator", gVote, func(w *harness.World) *harness.TxSpec {
		C := U(w, 2)
		return ProposalVote(hid, C, C, governance.OPIN_POSITIVE, "hostile")
	})
	add("ProposalVote", "unstaked-candidate-as-validator", gVote, func(w *harness.World) *harness.TxSpec {
		v := w.Vals[3]
		return ProposalVote(hid, v.Stake, v.Val, governance.OPIN_POSITIVE, "hostile")
	})
	add("ProposalVote", "unknown-proposal", gVote, func(w *harness.World) *harness.TxSpec {
		return vote(w, PID("nope"), 0, governance.OPIN_POSITIVE, "hostile")
	})
	add("ProposalVote", "single-signature-validator-only", gVote, func(w *harness.World) *harness.TxSpec {
		v := w.Vals[0]
		return ProposalVote(hid, v.Stake, v.Val, governance.OPIN_POSITIVE, "hostile", v.Val)
	})

	// ---- ProposalCancel ----
	add("ProposalCancel", "third-party-proposer", gFund, func(w *harness.World) *harness.TxSpec {
		return ProposalCancel(hid, U(w, 0), "hostile", "hostile", U(w, 2))
	})
	add("ProposalCancel", "not-the-proposer", gFund, func(w *harness.World) *harness.TxSpec {
		return ProposalCancel(hid, U(w, 2), "hostile", "hostile")
	})
	add("ProposalCancel", "unknown-proposal", gFund, func(w *harness.World) *harness.TxSpec {
		return ProposalCancel(PID("nope"), U(w, 0), "hostile", "hostile")
	})
	add("ProposalCancel", "during-voting", gVote, func(w *harness.World) *harness.TxSpec {
		return ProposalCancel(hid, U(w, 0), "hostile", "hostile")
	})

	// ---- ProposalWithdrawFunds ----
	add("ProposalWithdrawFunds", "unknown-currency", gCancelled, func(w *harness.World) *harness.TxSpec {
		return ProposalWithdrawFunds(hid, U(w, 1), xxx(50), U(w, 1).Addr, "hostile")
	})
	add("ProposalWithdrawFunds", "negative-amount", gCancelled, func(w *harness.World) *harness.TxSpec {
		return ProposalWithdrawFunds(hid, U(w, 1), neg(50), U(w, 1).Addr, "hostile")
	})
	add("ProposalWithdrawFunds", "huge-amount", gCancelled, func(w *harness.World) *harness.TxSpec {
		return ProposalWithdrawFunds(hid, U(w, 1), huge(), U(w, 1).Addr, "hostile")
	})
	add("ProposalWithdrawFunds", "third-party-funder", gCancelled, func(w *harness.World) *harness.TxSpec {
		C := U(w, 2)
		return ProposalWithdrawFunds(hid, U(w, 1), olt(50), C.Addr, "hostile", C)
	})
	add("ProposalWithdrawFunds", "not-a-funder", gCancelled, func(w *harness.World) *harness.TxSpec {
		C := U(w, 2)
		return ProposalWithdrawFunds(hid, C, olt(50), C.Addr, "hostile")
	})
	add("ProposalWithdrawFunds", "nil-beneficiary", gCancelled, func(w *harness.World) *harness.TxSpec {
		return ProposalWithdrawFunds(hid, U(w, 1), olt(50), nil, "hostile")
	})
	add("ProposalWithdrawFunds", "during-funding", gFund, func(w *harness.World) *harness.TxSpec {
		return ProposalWithdrawFunds(hid, U(w, 1), olt(50), U(w, 1).Addr, "hostile")
	})
	add("ProposalWithdrawFunds", "during-voting", gVote, func(w *harness.World) *harness.TxSpec {
		return ProposalWithdrawFunds(hid, U(w, 1), olt(50), U(w, 1).Addr, "hostile")
	})

	// ("after a stranger expired the proposal during funding": characterised a defect of the pinned tree; the
	// handler refuses a user-sent EXPIRE_VOTES outside the voting stage since the repair, the case is gone)

	// ---- ExpireVotes (public router) ----
	add("ExpireVotes", "penniless-stranger-zero-fee", gVote, func(w *harness.World) *harness.TxSpec {
		t := ExpireVotes(hid, harness.NewAccount("penniless"), "hostile")
		t.Fee = action.Fee{}
		return t
	})
	add("ExpireVotes", "third-party-validator-address", gVote, func(w *harness.World) *harness.TxSpec {
		return ExpireVotes(hid, w.Vals[0].Val, "hostile", U(w, 2))
	})
	add("ExpireVotes", "unknown-proposal", gVote, func(w *harness.World) *harness.TxSpec {
		return ExpireVotes(PID("nope"), U(w, 2), "hostile")
	})
	add("ExpireVotes", "empty-proposal-id", gVote, func(w *harness.World) *harness.TxSpec {
		return ExpireVotes("", U(w, 2), "hostile")
	})
	add("ExpireVotes", "no-signatures", gVote, func(w *harness.World) *harness.TxSpec {
		t := ExpireVotes(hid, U(w, 2), "hostile")
		t.Signers = nil
		return t
	})
	add("ExpireVotes", "zero-fee", gVote, func(w *harness.World) *harness.TxSpec {
		t := ExpireVotes(hid, U(w, 2), "hostile")
		t.Fee = action.Fee{}
		return t
	})

	// ---- ProposalFinalize (public router) ----
	add("ProposalFinalize", "third-party-validator-address", gPass, func(w *harness.World) *harness.TxSpec {
		return ProposalFinalize(hid, w.Vals[0].Val, "hostile", U(w, 2))
	})
	add("ProposalFinalize", "cancelled-proposal", gCancelled, func(w *harness.World) *harness.TxSpec {
		return ProposalFinalize(hid, U(w, 2), "hostile")
	})
	add("ProposalFinalize", "still-voting", gVote, func(w *harness.World) *harness.TxSpec {
		return ProposalFinalize(hid, U(w, 2), "hostile")
	})
	add("ProposalFinalize", "unknown-proposal", gPass, func(w *harness.World) *harness.TxSpec {
		return ProposalFinalize(PID("nope"), U(w, 2), "hostile")
	})
	add("ProposalFinalize", "zero-fee-no-signatures", gPass, func(w *harness.World) *harness.TxSpec {
		t := ProposalFinalize(hid, U(w, 2), "hostile")
		t.Fee = action.Fee{}
		t.Signers = nil
		return t
	})

	// ---- DomainCreate ----
	add("DomainCreate", "unknown-currency", oNone, func(w *harness.World) *harness.TxSpec {
		return DomainCreate(U(w, 0), U(w, 0).Addr, "a.ol", "", xxx(30), "hostile")
	})
	add("DomainCreate", "negative-price", oNone, func(w *harness.World) *harness.TxSpec {
		return DomainCreate(U(w, 0), U(w, 0).Addr, "a.ol", "", neg(30), "hostile")
	})
	add("DomainCreate", "huge-price", oNone, func(w *harness.World) *harness.TxSpec {
		return DomainCreate(U(w, 0), U(w, 0).Addr, "a.ol", "", huge(), "hostile")
	})
	add("DomainCreate", "third-party-owner", oNone, func(w *harness.World) *harness.TxSpec {
		C := U(w, 2)
		return DomainCreate(U(w, 0), C.Addr, "a.ol", "", olt(30), "hostile", C)
	})
	add("DomainCreate", "nil-owner", oNone, func(w *harness.World) *harness.TxSpec {
		return DomainCreate(AddrOnly(nil), nil, "a.ol", "", olt(30), "hostile", U(w, 2))
	})
	add("DomainCreate", "foreign-tld", oNone, func(w *harness.World) *harness.TxSpec {
		return DomainCreate(U(w, 0), nil, "a.xyz", "", olt(30), "hostile")
	})
	add("DomainCreate", "malformed-name", oNone, func(w *harness.World) *harness.TxSpec {
		return DomainCreate(U(w, 0), nil, "..ol", "", olt(30), "hostile")
	})
	add("DomainCreate", "empty-name", oNone, func(w *harness.World) *harness.TxSpec {
		return DomainCreate(U(w, 0), nil, "", "", olt(30), "hostile")
	})
	add("DomainCreate", "bad-uri", oNone, func(w *harness.World) *harness.TxSpec {
		return DomainCreate(U(w, 0), nil, "a.ol", "::not a uri::", olt(30), "hostile")
	})
	add("DomainCreate", "sub-of-missing-parent", oNone, func(w *harness.World) *harness.TxSpec {
		return DomainCreate(U(w, 0), nil, "b.zzz.ol", "", olt(30), "hostile")
	})
	add("DomainCreate", "sub-of-foreign-parent", oA, func(w *harness.World) *harness.TxSpec {
		return DomainCreate(U(w, 2), nil, "evil.a.ol", "", olt(30), "hostile")
	})
	add("DomainCreate", "duplicate-name", oA, func(w *harness.World) *harness.TxSpec {
		return DomainCreate(U(w, 2), nil, "a.ol", "", olt(30), "hostile")
	})

	// ---- DomainUpdate ----
	add("DomainUpdate", "third-party-owner", oA, func(w *harness.World) *harness.TxSpec {
		C := U(w, 2)
		return DomainUpdate(U(w, 0), C.Addr, "a.ol", true, "", "hostile", C)
	})
	add("DomainUpdate", "not-the-owner", oA, func(w *harness.World) *harness.TxSpec {
		C := U(w, 2)
		return DomainUpdate(C, C.Addr, "a.ol", true, "", "hostile")
	})
	add("DomainUpdate", "deactivate-nil-beneficiary", oA, func(w *harness.World) *harness.TxSpec {
		return DomainUpdate(U(w, 0), nil, "a.ol", false, "", "hostile")
	})
	add("DomainUpdate", "bad-uri", oA, func(w *harness.World) *harness.TxSpec {
		return DomainUpdate(U(w, 0), U(w, 0).Addr, "a.ol", true, "::not a uri::", "hostile")
	})
	add("DomainUpdate", "unknown-domain", oA, func(w *harness.World) *harness.TxSpec {
		return DomainUpdate(U(w, 0), U(w, 0).Addr, "zzz.ol", true, "", "hostile")
	})

	// ---- DomainSell ----
	add("DomainSell", "unknown-currency", oA, func(w *harness.World) *harness.TxSpec {
		return DomainSell(U(w, 0), "a.ol", xxx(50), false, "hostile")
	})
	add("DomainSell", "negative-price", oA, func(w *harness.World) *harness.TxSpec {
		return DomainSell(U(w, 0), "a.ol", neg(50), false, "hostile")
	})
	add("DomainSell", "huge-price", oA, func(w *harness.World) *harness.TxSpec {
		return DomainSell(U(w, 0), "a.ol", huge(), false, "hostile")
	})
	add("DomainSell", "third-party-owner", oA, func(w *harness.World) *harness.TxSpec {
		return DomainSell(U(w, 0), "a.ol", olt(2), false, "hostile", U(w, 2))
	})
	add("DomainSell", "subdomain", oSub, func(w *harness.World) *harness.TxSpec {
		return DomainSell(U(w, 0), "b.a.ol", olt(50), false, "hostile")
	})

	// ---- DomainPurchase ----
	add("DomainPurchase", "unknown-currency", oSale, func(w *harness.World) *harness.TxSpec {
		return DomainPurchase(U(w, 1), U(w, 1).Addr, "a.ol", xxx(55), "hostile")
	})
	add("DomainPurchase", "negative-offering", oSale, func(w *harness.World) *harness.TxSpec {
		return DomainPurchase(U(w, 1), U(w, 1).Addr, "a.ol", neg(55), "hostile")
	})
	add("DomainPurchase", "huge-offering", oSale, func(w *harness.World) *harness.TxSpec {
		return DomainPurchase(U(w, 1), U(w, 1).Addr, "a.ol", huge(), "hostile")
	})
	add("DomainPurchase", "below-price", oSale, func(w *harness.World) *harness.TxSpec {
		return DomainPurchase(U(w, 1), U(w, 1).Addr, "a.ol", olt(49), "hostile")
	})
	add("DomainPurchase", "third-party-buyer", oSale, func(w *harness.World) *harness.TxSpec {
		C := U(w, 2)
		return DomainPurchase(U(w, 1), C.Addr, "a.ol", olt(55), "hostile", C)
	})
	add("DomainPurchase", "not-on-sale-not-expired", oA, func(w *harness.World) *harness.TxSpec {
		return DomainPurchase(U(w, 1), U(w, 1).Addr, "a.ol", olt(55), "hostile")
	})
	add("DomainPurchase", "nil-account", oSale, func(w *harness.World) *harness.TxSpec {
		return DomainPurchase(U(w, 1), nil, "a.ol", olt(55), "hostile")
	})

	// ---- DomainSend ----
	add("DomainSend", "unknown-currency", oA, func(w *harness.World) *harness.TxSpec {
		return DomainSend(U(w, 2), "a.ol", xxx(7), "hostile")
	})
	add("DomainSend", "negative-amount", oA, func(w *harness.World) *harness.TxSpec {
		return DomainSend(U(w, 2), "a.ol", neg(7), "hostile")
	})
	add("DomainSend", "huge-amount", oA, func(w *harness.World) *harness.TxSpec {
		return DomainSend(U(w, 2), "a.ol", huge(), "hostile")
	})
	add("DomainSend", "third-party-sender", oA, func(w *harness.World) *harness.TxSpec {
		return DomainSend(U(w, 1), "a.ol", olt(7), "hostile", U(w, 0))
	})
	add("DomainSend", "unknown-domain", oA, func(w *harness.World) *harness.TxSpec {
		return DomainSend(U(w, 2), "zzz.ol", olt(7), "hostile")
	})
	add("DomainSend", "domain-on-sale", oSale, func(w *harness.World) *harness.TxSpec {
		return DomainSend(U(w, 2), "a.ol", olt(7), "hostile")
	})

	// ---- DomainDeleteSub ----
	add("DomainDeleteSub", "third-party-owner", oSub, func(w *harness.World) *harness.TxSpec {
		return DomainDeleteSub(U(w, 0), "b.a.ol", "hostile", U(w, 2))
	})
	add("DomainDeleteSub", "not-the-owner", oSub, func(w *harness.World) *harness.TxSpec {
		return DomainDeleteSub(U(w, 2), "b.a.ol", "hostile")
	})
	add("DomainDeleteSub", "missing-sub", oSub, func(w *harness.World) *harness.TxSpec {
		return DomainDeleteSub(U(w, 0), "zzz.a.ol", "hostile")
	})
	add("DomainDeleteSub", "missing-parent", oSub, func(w *harness.World) *harness.TxSpec {
		return DomainDeleteSub(U(w, 0), "b.zzz.ol", "hostile")
	})

	// ---- DomainRenew ----
	add("DomainRenew", "unknown-currency", oA, func(w *harness.World) *harness.TxSpec {
		return DomainRenew(U(w, 0), "a.ol", xxx(5), "hostile")
	})
	add("DomainRenew", "negative-price", oA, func(w *harness.World) *harness.TxSpec {
		return DomainRenew(U(w, 0), "a.ol", neg(5), "hostile")
	})
	add("DomainRenew", "huge-price", oA, func(w *harness.World) *harness.TxSpec {
		return DomainRenew(U(w, 0), "a.ol", huge(), "hostile")
	})
	add("DomainRenew", "third-party-owner", oA, func(w *harness.World) *harness.TxSpec {
		return DomainRenew(U(w, 0), "a.ol", olt(5), "hostile", U(w, 2))
	})
	add("DomainRenew", "not-the-owner", oA, func(w *harness.World) *harness.TxSpec {
		return DomainRenew(U(w, 2), "a.ol", olt(5), "hostile")
	})
	add("DomainRenew", "subdomain", oSub, func(w *harness.World) *harness.TxSpec {
		return DomainRenew(U(w, 0), "b.a.ol", olt(5), "hostile")
	})
	return hc
}

type createArgs struct {
	id       governance.ProposalID
	typ      governance.ProposalType
	proposer *harness.Account
	funding  action.Amount
	fd, vd   int64
	goal     *balance.Amount
	pass     int
	cfg      string
	signers  []*harness.Account
}

func short(s string) string {
	if len(s) > 160 {
		return s[:160] + "..."
	}
	return s
}

// startAt builds a fresh run and plays the prefix; a failing prefix is a bug of this test.
func startAt(t *testing.T, hc hostileCase) *harness.Run {
	w := harness.NewWorld("gov-hostile-"+hc.ctor+"-"+hc.name, 4, 3)
	x, err := harness.StartRun(w)
	if err != nil {
		t.Fatalf("StartRun: %v", err)
	}
	for i, b := range hc.prefix(w) {
		res, err := x.Block(b)
		if err != nil {
			x.Close()
			t.Fatalf("prefix block %d: %v", i+1, err)
		}
		for j, r := range res.Txs {
			if r.Code != 0 {
				x.Close()
				t.Fatalf("prefix block %d tx %d: %s", i+1, j, r.Log)
			}
		}
	}
	return x
}

// TestConstructorsHostile throws malformed and malicious transactions of every kind at CheckTx and,
// bypassing the mempool, at DeliverTx. Nothing here fails the test: the outcomes are findings.
func TestConstructorsHostile(t *testing.T) {
	quiet(t)
	defer harness.RemoveScratch()
	for _, hc := range hostileCases() {
		hc := hc
		t.Run(hc.ctor+"/"+hc.name, func(t *testing.T) {
			x := startAt(t, hc)
			defer func() { x.Close() }()
			tx := hc.tx(x.W)
			raw := tx.Bytes()

			chk := x.R.CheckTx(raw)
			deadCheck := x.R.Dead
			t.Logf("CheckTx   code=%d dead=%v log=%s", chk.Code, deadCheck, short(chk.Log))
			if deadCheck {
				// the instance closed itself: deliver on another fresh run
				x.Close()
				x = startAt(t, hc)
			}

			before := x.R.Dump()
			res, err := x.Block(harness.BlockSpec{Txs: []*harness.TxSpec{tx}, NoCheck: true})
			deadDeliver := x.R.Dead
			if res == nil || len(res.Txs) == 0 {
				t.Logf("DeliverTx no result err=%v dead=%v", err, deadDeliver)
				return
			}
			dlv := res.Txs[0]
			nChanged := -1
			if !deadDeliver {
				// keys changed beyond what an empty block changes is too much to compute here; log the
				// kind-relevant keys only
				nChanged = 0
				for _, k := range changedKeys(before, x.R.Dump()) {
					if len(k) > 4 && (k[:4] == "prop" || k[:2] == "d_" || k[:2] == "g_") {
						nChanged++
					}
				}
			}
			t.Logf("DeliverTx code=%d dead=%v err=%v changed(prop/d_/g_ keys)=%d log=%s", dlv.Code, deadDeliver, err, nChanged, short(dlv.Log))
			if !deadDeliver {
				// two more blocks: does anything stored by the transaction poison the block hooks?
				for i := 0; i < 2 && !x.R.Dead; i++ {
					if _, err := x.Block(harness.BlockSpec{}); err != nil {
						t.Logf("follow-up block error: %v", err)
					}
				}
				if x.R.Dead {
					t.Logf("application died in a follow-up block")
				}
			}
		})
	}
}
