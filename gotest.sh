#!/bin/bash
# usage: ./gotest.sh ./txs/staking [-run X -v ...]   (go test with the verif hooks + generated overlay)
cd "$(dirname "$0")"
export GOFLAGS=-mod=mod GOPROXY=off GOSUMDB=off GOTOOLCHAIN=local
OUT=/verif/build/gotest; mkdir -p $OUT
go build -o "$OUT/genprep" ./cmd/genprep && "$OUT/genprep" /repo "$OUT" || exit 2
PKG="$1"; shift
exec go test -tags verif -overlay "$OUT/overlay.json" -ldflags=-checklinkname=0 -vet=off -count=1 "$PKG" "$@"
