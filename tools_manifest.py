#!/usr/bin/env python3
# Regenerates MANIFEST.json from the table below (single source of truth for the interface file).
import json, subprocess
props=[json.loads(l) for l in open('/verif/properties.jsonl')]
checks = {
 "C01": dict(cat="model_checking", tech="twin-replica execution of every catalogue history on the real application with every single deviation of a controlled nondeterminism source: map iteration order at every dynamic occurrence (build-time seam rewriter over all `range` over maps, time.Now, uuid.NewUUID), node identity/role/wallet/job store, clock, tx-index lag",
   text="The binary is built with a go/packages rewriter that routes every `for range` over a Go map, every time.Now() and every uuid.NewUUID() of the application's module through a seam. For every catalogue history a lead replica logs every dynamic map iteration with >= 2 keys (choice point); for every choice point and every alternative order (quick: all n! for n<=3, 6 of 23 for n=4; thorough: all n! for n<=4 and pairs of deviations) a second replica is fed the same requests with that one order changed, its clock +400 days and another UUID node; further second replicas are a non-validator non-witness node with other keys/wallet/OLTEST, a restarted witness (flag on), a witness whose job store is wiped after block k (every k), and a node whose tx index lags one block (history extended by a re-delivery of the target). App hash, validator updates and tx code/data/gas of every block must be equal.",
   note="Map ranges / clocks inside Tendermint, IAVL, go-ethereum and goleveldb are assumed deterministic. Histories are the catalogue's. Known finding (listed per kind): the node-local tx index is consensus input for re-delivered transactions.", ref="DESIGN.md section 3 C01"),
 "C02": dict(cat="model_checking", tech="explicit-state exploration on the real application: every catalogue state x every adversarial (amount, currency) substitution of every amount-bearing field, both admission paths, ledger oracle on every block",
   text="Reachable chain states are the 125 catalogue histories (every transaction kind, every block-level hook). In the state where a scenario's target is valid the target is replaced by an attack: one amount leaf set to each of {-1, -same, -huge, 0, 1, +1, 2^63, 2^64+1, 2^64+small, 10^40} crossed with the sibling currency in {same, ETH, XXX, VT}, correctly re-signed; sent through CheckTx (delivered only if admitted) and delivered directly; followed by 8 empty blocks (all maturities). After every block of every execution, including the unmodified histories, the committed key/value state is decoded into a ledger: per currency the total may grow only by the delegation rewards accrued in that block (and, for wrapped currencies, only in a block in which a tracker became final); no stored amount may be negative; key families the decoder does not know are reported.",
   note="Amounts outside the listed representatives and values inside embedded Ethereum transactions are not enumerated (the latter are C15's subject). The decoder's notion of 'value held on chain' is listed in the evidence assumptions.", ref="DESIGN.md section 3 C02"),
 "C03": dict(cat="model_checking", tech="explicit-state exploration on the real application: every catalogue state x every address field pointed at another account x every candidate signer set, both admission paths, per-owner ledger oracle on every block",
   text="Same explorer as C02 with the address attack family: every address leaf of the valid target is set to the attacker, another user, a stake account and a validator address (thorough: all of them), and the transaction is signed by the original signers, by the attacker alone and with the attacker substituted at each signer position; both admission paths; 8 trailing blocks. After every block the holdings (balances in every currency, locked/unlocking/withdrawable stake, delegated and undelegating amounts, delegation reward claims) of every externally owned account may only decrease if the account signed a transaction included in that block, or is the stake account of a validator that signed one or was found guilty in that block.",
   note="Externally owned accounts = all accounts whose keys the world knows; pools and contracts are not subjects of C03.", ref="DESIGN.md section 3 C03"),
 "C04": dict(cat="exploration", tech="exhaustive single-field mutation of valid signed transactions of every kind, executed on the real application (CheckTx + delivered in a block vs. twin)",
   text="Every operator of a finite mutation list (each payload leaf, each fee field, memo, every other type, signature bytes, signer key, key algorithm, signature list shape; thorough: one bit flip at every byte) is applied to a valid transaction of every kind in a state where it succeeds; each mutant must be rejected by CheckTx and leave state, app hash and validator updates equal to the twin run without it. Exhaustive over kinds x operators; not over all byte strings.",
   note="Trusted: the harness' Tendermint stand-in and tx factory; covers the kinds that have a catalogue scenario (listed in the evidence). Operators that only change the unused Signer key of sender-recovery (OLVM) signatures are classed as re-encodings (C05).", ref="DESIGN.md section 3 C04"),
 "C05": dict(cat="exploration", tech="exhaustive re-encoding enumeration of executed transactions of every kind, resubmitted at later heights on the real application (CheckTx + delivered vs. twin), with the tx index fresh and lagging",
   text="For every kind a valid transaction is executed in a block; then the byte-identical transaction and every re-encoding of a finite operator list (leading/trailing/inner whitespace, key order, duplicate key, unknown field, string escape, key case, non-canonical base64 trailing bits, extra field in signature objects, unused signer key of recovery signatures) that parses to the same content and is admitted on a fresh state is resubmitted 1 and 3 blocks later, via CheckTx and directly in a block, with the node's tx index up to date and one block late; CheckTx must reject it and the state must equal the twin without it.",
   note="'Any other encoding' is covered by the operator list (every leniency of the JSON/base64 decoders in use). Known finding (not small to fix, listed per kind and path): the replay lookup uses Tendermint's asynchronously filled tx index, so a byte-identical resubmission while the index lags is not recognised.", ref="DESIGN.md section 3 C05"),
 "C06": dict(cat="fault_enumeration", tech="failure-point enumeration: one failing transaction inserted at every position of every block of every catalogue history, twin-run comparison on the real application",
   text="For every catalogue history, at every position of every block, one transaction that fails in DeliverTx is inserted (gas limit one below its own use -> fee step fails after the handler succeeded; unpayable fee price; gas limit 1; repeat of a non-repeatable transaction; valid transactions of other kinds whose preconditions do not hold). The run must give the same app hashes, validator updates and results for all other transactions (this and all later blocks) as the twin without it.",
   note="One failing transaction per execution. Failure points reached are those the catalogue's kinds and states produce (failure logs counted in the evidence); EVM programs reading GASLIMIT are not in the catalogue.", ref="DESIGN.md section 3 C06"),
 "C07": dict(cat="model_checking", tech="exhaustive schedule enumeration: a CheckTx injected at every gap between consensus calls of every catalogue history, on the real application, transcript compared with the injection-free run",
   text="States are the gaps between two consecutive consensus calls (InitChain/BeginBlock/each DeliverTx/EndBlock/Commit) of every catalogue history; in every gap every transaction of a menu (each transaction of the history as a fresh copy and byte-identical, a broken-signature copy, valid targets of the other kinds) is sent to CheckTx in a separate execution; the consensus transcript (app hash, validator updates, tx code/data/gas) must equal the run without any CheckTx. Quick: one injected CheckTx per execution plus the all-transactions-checked normal flow; thorough: pairs.",
   note="Bound: number of injected CheckTx per execution (1 quick / 2 thorough); histories are the catalogue's. CheckTx during Commit is excluded (Tendermint holds the mempool lock).", ref="DESIGN.md section 3 C07"),
 "C08": dict(cat="fault_enumeration", tech="crash-point enumeration: process death (byte copy of the open data directory) at every ABCI call boundary of every catalogue history, restart through the real start-up code, replay, transcript comparison",
   text="For every catalogue history and every boundary (after InitChain, after BeginBlock, after each DeliverTx, after EndBlock, after Commit) the process dies; a new application is started on a byte copy of the data directory through the start-up code generated from Prepare(); Info() must report the last completed commit, and after re-sending the missing blocks the transcript incl. 7 trailing blocks must equal the uninterrupted run's. Thorough adds every pair of crashes (incl. crash during replay).",
   note="Crash image = all pages written so far (no torn goleveldb batch); block store and tx index are Tendermint's and survive. The witness flag is whatever the application's own start-up code computes.", ref="DESIGN.md section 3 C08"),
 "C18": dict(cat="exploration", tech="exhaustive enumeration of a finite hostile-input menu per transaction kind and base state, in sacrificial worker processes of the real application",
   text="For every catalogue scenario (base state + valid transaction of a kind) every input of a finite menu is built: every payload leaf replaced by every hostile value of its class (negative / zero / 2^63 / 10^40 amounts, unknown and empty currencies, empty / short / long / nil addresses, truncated / empty / garbage embedded Ethereum transactions, -1 / max integers, null for everything), every object/array node replaced, whole payload replaced, the payload under every other type, structural garbage, signature-list shapes and hostile fee values, payload variants correctly re-signed. Each goes to CheckTx and, separately, into a delivered block; the worker process must survive, the application must not close itself (recovered panic), Tendermint must accept the validator updates, and a probe SEND must check and deliver as usual afterwards.",
   note="'Whatever bytes' is covered by the finite structured menu only (arbitrary byte strings would be sampling). A worker death is retried once in a fresh process and reported only if it reproduces.", ref="DESIGN.md section 3 C18"),
}
order=sorted(checks)
m={
 "version":1,
 "setup_cmd":"cd /verif && ./setup.sh",
 "hooks":{
  "guard":"verif",
  "enable":"go build -tags verif -overlay /verif/build/<bin>/overlay.json -ldflags=-checklinkname=0 (the overlay adds app/zz_verif_prepare.go, generated at every build by /verif/cmd/genprep from the body of Prepare() in app/application.go; see /verif/build.sh)",
  "baseline_off_cmd":"cd /repo && GOFLAGS=-mod=mod go test -json -vet=off -count=1 -timeout 25m ./...",
  "source_commits":["bef0da8","2e98790","91856ba","619057c"],
  "add_only":True
 },
 "engines":[
  {"name":"vcheck","path":"/verif/cmd/vcheck","serves_properties":[c for c in order if c not in ("C09","C16")],"kind_free_text":"explicit-state / fault / schedule enumeration on the real ABCI application driven without Tendermint (harness: /verif/harness, explorer core: /verif/explore, history catalogue: /verif/catalogue + /verif/txs)"},
 ],
 "checks":[],
 "notes":"Every check: ./check <ID> quick|thorough rebuilds the checker from /repo's working tree (hooks on). KNOWN_FINDINGS.jsonl lists fixed defects (fix: commits in /repo) and known findings. The repository test event::TestTransitions iterates a Go map and panics in one sub-case, so which of its sub-tests are reported as passed varies from run to run on the unchanged baseline as well.",
 "not_applicable":[]
}
for pid in order:
    c=checks[pid]
    m["checks"].append({
      "property_id":pid,
      "quick_cmd":f"./check {pid} quick",
      "thorough_cmd":f"./check {pid} thorough",
      "evidence_file":f"/verif/evidence/{pid}.json",
      "replay_cmd_template":f"./check {pid} quick -replay {{path}}",
      "engine":"vcheck" if pid not in ("C09","C16") else {"C09":"vstore","C16":"vevm"}[pid],
      "level_claimed":{"category":c["cat"],"text":c["text"],"design_ref":c["ref"]},
      "level_note":c["note"],
      "technique":c["tech"],
    })
for p in props:
    if p["id"] not in checks:
        m["not_applicable"].append({"property_id":p["id"],"reason":"check not built yet (work in progress; see DESIGN.md section 3)"})
json.dump(m,open('/verif/MANIFEST.json','w'),indent=1)
print("checks:",order)
